"""C13 - statements are well-formed and independent of the order of commuting calls.

spec:  PT_Builder (ClauseSeq per statement kind and dialect, Complete), MC_C13 (all subsets and permutations of a call pool; Confluent on the design)
judge: J_C13 (clause sequence of the real token stream vs ClauseSeq of the folded state; one text per clause-order class of a call multiset)
"""
from __future__ import annotations

import hashlib
import json
import sqlite3

from harness import core, execb, lexer, tlc

CLAUSE_START = {
    ("SELECT",): "SELECT", ("INTO",): "INTO", ("FROM",): "FROM", ("WHERE",): "WHERE", ("PREWHERE",): "PREWHERE", ("GROUP", "BY"): "GROUP BY",
    ("HAVING",): "HAVING", ("ORDER", "BY"): "ORDER BY", ("LIMIT",): "PAG", ("OFFSET",): "PAG", ("FETCH",): "PAG", ("FOR", "UPDATE"): "FOR UPDATE",
    ("FORCE", "INDEX"): "FORCE INDEX", ("USE", "INDEX"): "USE INDEX", ("INSERT", "INTO"): "INSERT INTO", ("INSERT", "IGNORE", "INTO"): "INSERT INTO",
    ("REPLACE", "INTO"): "REPLACE INTO", ("VALUES",): "VALUES", ("UPDATE",): "UPDATE", ("SET",): "SET", ("DELETE",): "DELETE",
    ("ON", "CONFLICT"): "ON CONFLICT", ("DO", "NOTHING"): "DO NOTHING", ("DO", "UPDATE"): "DO UPDATE",
    ("ON", "DUPLICATE", "KEY", "UPDATE"): "ON DUPLICATE KEY UPDATE", ("WITH",): "WITH", ("JOIN",): "JOIN", ("RETURNING",): "RETURNING",
}
JOIN_PREFIX = {"LEFT", "RIGHT", "INNER", "OUTER", "FULL", "CROSS", "HASH"}


def clause_seq(toks):
    """depth-0 clause keywords of a token stream, in order (the projection J_C13 compares with ClauseSeq)"""
    out = []
    ws = [(t["v"] if t["t"] == "word" else None, t["d"], t) for t in toks]
    i, n = 0, len(ws)
    while i < n:
        w, d, t = ws[i]
        if w is None or d != 0:
            i += 1
            continue
        hit = None
        for ln in (4, 3, 2, 1):
            key = tuple(x[0] for x in ws[i:i + ln])
            if len(key) == ln and all(x[1] == 0 for x in ws[i:i + ln]) and key in CLAUSE_START:
                hit = (CLAUSE_START[key], ln)
                break
        if hit is None:
            i += 1
            continue
        name, ln = hit
        if name == "SET" and out and out[-1] == "DO UPDATE":
            i += ln
            continue  # DO UPDATE SET belongs to the conflict action
        if name == "UPDATE" and out and out[-1] in ("FOR UPDATE", "DO UPDATE", "ON DUPLICATE KEY UPDATE"):
            i += ln
            continue
        if name == "ORDER BY" and [x[2]["v"] for x in ws[i + 2:i + 6]] == ["(", "SELECT", "0", ")"]:
            name = "PAG"  # the neutral ORDER BY that SQL Server's OFFSET needs
            ln = 6
        if name == "WHERE" and out and out[-1] in ("ON CONFLICT", "DO UPDATE"):
            i += ln
            continue  # conflict target / action predicates are part of the ON CONFLICT clause
        if name == "PAG" and out and out[-1] == "PAG":
            i += ln
            continue
        if name == "INTO" and out and out[-1] in ("INSERT INTO", "REPLACE INTO"):
            i += ln
            continue
        out.append(name)
        i += ln
    return out


# the clause a method addresses (mirrors J_C13!ClauseOf)
CLAUSE_OF = {"select": "SELECT", "selectstr": "SELECT", "distinct": "SELECT", "groupby": "GROUP BY", "groupbystr": "GROUP BY", "orderby": "ORDER BY",
             "orderbystr": "ORDER BY", "limit": "LIMIT", "fetch_next": "LIMIT", "insert": "VALUES", "replace": "VALUES",
             "on_conflict": "ON CONFLICT", "do_nothing": "ON CONFLICT", "do_update": "ON CONFLICT"}
SCHEMA = ["CREATE TABLE t1 (a, b, c)", "CREATE TABLE t2 (a, b, c)"]
SQLITE_UNSUPPORTED = {"for_update", "force_index", "use_index", "prewhere"}


def sqlite_prepare(sql):
    con = sqlite3.connect(":memory:")
    try:
        for s in SCHEMA:
            con.execute(s)
        con.execute("EXPLAIN " + sql)
        return ""
    except sqlite3.Error as ex:
        return str(ex)
    finally:
        con.close()


def run(tier: str) -> int:
    rep = core.Report("C13", tier)
    qc = core.query_classes()
    events, meta = [], []
    maxcalls = 3 if tier == "quick" else 4
    engine_checked = 0
    for fam in ("select", "insert", "update", "delete"):
        gen = "---- MODULE MC_C13Gen ----\nEXTENDS MC_C13\n" + execb.srctab_tla() + "====\n"
        r = tlc.run("MC_C13Gen", f'CONSTANTS\nFam = "{fam}"\nMaxCalls = {maxcalls}\nSrcTab <- G_SrcTab\nINIT Init\nNEXT Next\nINVARIANT Emit\nINVARIANT Confluent\n',
                    workers=16, heap="6g", extra_files={"MC_C13Gen.tla": gen}, timeout=2400)
        rep.add_tlc(r)
        if r.violation or not r.ok:
            raise core.MachineryError(f"MC_C13 {fam}: {r.violation}\n{r.raw_tail[-1500:]}")
        progs = r.json_tagged("P")
        if len(progs) != r.distinct:
            raise core.MachineryError("generator output incomplete")
        groups = {}
        for p in progs:
            groups.setdefault(tuple(sorted(p["perm"])), []).append(p)
        for d, Q in qc.items():
            ld = core.lex_dialect(d)
            for key, ps in groups.items():
                if not key:
                    continue
                orders = []
                if d != "postgresql" and any(c["m"] == "returning" for c in ps[0]["calls"]):
                    continue  # RETURNING is a PostgreSQL builder method
                for p in ps:
                    env = execb.Env(Q)
                    # under the generic class every order is executed inside a branching history (sibling continuations are
                    # derived from each intermediate builder and discarded): commutation must survive them
                    q, excs = env.run(p["calls"], decoys=(d == "generic"))
                    rexc, text = "", ""
                    try:
                        text = str(q)
                    except Exception as ex:  # noqa
                        rexc = type(ex).__name__
                    toks = lexer.lex(text, ld)
                    orders.append({"perm": p["perm"], "calls": p["calls"], "excs": excs, "rexc": rexc,
                                   "text": hashlib.sha1(text.encode()).hexdigest()[:12] if text else "", "clauses": clause_seq(toks),
                                   "balanced": lexer.balanced(toks) and not any(t["t"] == "err" for t in toks), "_sql": text})
                    ms = [c["m"] for c in p["calls"]]
                    outside = (set(ms) & SQLITE_UNSUPPORTED) or ("delete" in ms and "join" in ms) or ("offset" in ms and "limit" not in ms) \
                        or (text.startswith("SELECT") and " INTO " in text) \
                        or ("on_conflict" in ms and "select" in ms and "where" not in ms)
                    # SELECT..INTO, DELETE..JOIN are not SQLite; OFFSET alone is C09's; upsert from a SELECT without WHERE is C03's
                    if d == "sqlite" and text and not rexc and not any(excs) and not outside:
                        engine_checked += 1
                        err = sqlite_prepare(text)
                        if err and ("syntax error" in err or "near" in err):
                            rep.discrepancy([["sqlite-prepare", fam] + sorted({c["m"] for c in p["calls"]})],
                                            {"sql": text, "engine": err, "calls": p["calls"]}, what="SQLite's parser rejects the statement")
                events.append({"tid": len(events), "d": d, "orders": [{k: v for k, v in o.items() if k != "_sql"} for o in orders]})
                meta.append((fam, d, key, orders))
    gen = "---- MODULE J_C13Gen ----\nEXTENDS J_C13\n" + execb.srctab_tla() + "====\n"
    results = tlc.judge_shards("J_C13Gen", "CONSTANT SrcTab <- G_SrcTab\nINIT Init\nNEXT Next\n", events, shard=max(300, len(events) // 16 + 1),
                               heap="3g", extra_files={"J_C13Gen.tla": gen}, timeout=3000)
    rep.add_tlc(results)
    if sum(max(x.distinct - 1, 0) for x in results) != len(events):
        raise core.MachineryError("J_C13 did not consume every event")
    ddl_traces, ddl_distinct, ddl_engine = ddl_family(rep, tier, qc)
    rep.traces = sum(len(e["orders"]) for e in events) + ddl_traces
    rep.evaluations = rep.traces
    rep.distinct = {(m[0], m[2]) for m in meta} | ddl_distinct
    rep.extra["sqlite_prepared"] = engine_checked + ddl_engine
    bad = []
    for res in results:
        bad += res.json_tagged("V")
    for v in sorted(bad, key=lambda v: len(meta[v["tid"]][2])):
        fam, d, key, orders = meta[v["tid"]]
        byperm = {tuple(o["perm"]): o for o in orders}
        forms = sorted((f[0], tuple(f[1])) for f in v["form"])
        frag = {perm for kind, perm in forms if kind == "fragment"}
        for kind, perm in forms:
            o = byperm[perm]
            meths = [c["m"] for c in o["calls"]]
            if kind == "clauses" and perm in frag:
                continue  # already reported as a fragment
            first = (o["clauses"] or ["?"])[0]
            rep.discrepancy([[kind, fam, d, first]] if kind != "clauses" else [[kind, fam, d, x] for x in _clause_alts(meths)],
                            {"family": fam, "dialect": d, "calls": o["calls"], "sql": o["_sql"], "clauses_found": o["clauses"]},
                            what=f"statement form: {kind}")
        if v["comm"]:
            # attribute to adjacent transpositions: two clean orders that differ by swapping two neighbouring calls and render differently
            clean = {p: o for p, o in byperm.items() if not any(o["excs"]) and not o["rexc"]}
            found = False
            for p, o in sorted(clean.items()):
                off = len(o["calls"]) - len(p)
                for k in range(len(p) - 1):
                    p2 = p[:k] + (p[k + 1], p[k]) + p[k + 2:]
                    o2 = clean.get(p2)
                    if o2 is None or p2 < p or o2["text"] == o["text"]:
                        continue
                    m1, m2 = sorted((o["calls"][off + k]["m"], o["calls"][off + k + 1]["m"]))
                    if CLAUSE_OF.get(m1, m1) == CLAUSE_OF.get(m2, m2):
                        continue  # two calls to one clause accumulate in call order: not a commutation claim
                    found = True
                    rep.discrepancy([["order-dependent", fam, d, m1, m2]],
                                    {"family": fam, "dialect": d, "order_1": o["calls"], "sql_1": o["_sql"], "order_2": o2["calls"], "sql_2": o2["_sql"]},
                                    what=f"swapping {m1} and {m2} (different clauses) changes the SQL")
            if not found:
                _, p1, p2 = sorted(v["comm"])[0]
                o1, o2 = byperm[tuple(p1)], byperm[tuple(p2)]
                rep.discrepancy([["order-dependent", fam, d] + sorted({c["m"] for c in o1["calls"]})],
                                {"family": fam, "dialect": d, "order_1": o1["calls"], "sql_1": o1["_sql"], "order_2": o2["calls"], "sql_2": o2["_sql"]},
                                what="the same calls in another order render different SQL")
    for k in (0, len(meta) // 2, len(meta) - 1):
        fam, d, key, orders = meta[k]
        rep.sample({"family": fam, "dialect": d, "calls": orders[0]["calls"], "orders": len(orders), "sql": orders[0]["_sql"]})
    rep.rule = (f"TLC enumerates every subset of <= {maxcalls} calls of each family's pool (15 SELECT, 10 INSERT/upsert, 8 UPDATE, 7 DELETE calls) and all its "
                "permutations; each order is executed under the 6 dialect classes; TLC folds the calls through PT_Builder and compares the depth-0 clause "
                "sequence of the real tokens with ClauseSeq, and requires one text per clause-order class of the multiset; SQLite's parser prepares the "
                "SQLite-dialect statements; CREATE TABLE: every subset of <= K of 10 option / column / constraint calls in every order (PT_Ddl!DSeq, J_Ddl)")
    rep.exhaustive = True
    return rep.finish()


DDL_WORDS = {"CREATE", "TEMPORARY", "UNLOGGED", "TABLE", "IF", "NOT", "EXISTS", "PERIOD", "FOR", "UNIQUE", "PRIMARY", "KEY", "WITH", "SYSTEM", "VERSIONING",
             "AS", "SELECT", "FROM"}


def ddl_family(rep, tier, qc):
    """CREATE TABLE: every subset of <= K option / column / constraint calls in every order (spec PT_Ddl, generator MC_Ddl, judge J_Ddl)"""
    from pypika_tortoise import Column

    r = tlc.run("MC_Ddl", f"CONSTANT MaxCalls = {3 if tier == 'quick' else 4}\nINIT Init\nNEXT Next\nINVARIANT Emit\nINVARIANT Commutes\n", workers=8, heap="4g")
    rep.add_tlc(r)
    if r.violation or not r.ok:
        raise core.MachineryError(f"MC_Ddl: {r.violation}\n{r.raw_tail[-1200:]}")
    groups = {}
    for p in r.json_tagged("P"):
        groups.setdefault(tuple(sorted(p["perm"])), []).append(p)
    events, meta = [], []
    engine = 0

    def apply(q, c):
        m = c["m"]
        if m == "columns":
            return q.columns(*[Column(n, "INT") for n in c["names"]])
        if m in ("unique", "primary_key"):
            return getattr(q, m)(*c["names"])
        if m == "period_for":
            return q.period_for(c["name"], c["a"], c["b"])
        return getattr(q, m)()
    for d, Q in qc.items():
        ld = core.lex_dialect(d)
        for key, ps in groups.items():
            if not key:
                continue
            orders = []
            for p in ps:
                q, excs = Q.create_table("ct"), []
                for c in p["calls"]:
                    try:
                        q = apply(q, c)
                        str(q)  # every intermediate builder is rendered (a decision remembered from an earlier render must not survive)
                        excs.append("")
                    except Exception as ex:  # noqa
                        excs.append(type(ex).__name__)
                rexc, text = "", ""
                try:
                    text = str(q)
                except Exception as ex:  # noqa
                    rexc = type(ex).__name__
                toks = lexer.lex(text, ld)
                seq = [t["v"] for t in toks if (t["t"] == "word" and t["v"] in DDL_WORDS) or t["t"] == "id"]
                orders.append({"perm": p["perm"], "calls": p["calls"], "excs": excs, "rexc": rexc, "text": hashlib.sha1(text.encode()).hexdigest()[:12] if text else "",
                               "seq": seq, "balanced": lexer.balanced(toks) and not any(t["t"] == "err" for t in toks), "_sql": text})
                ms = {c["m"] for c in p["calls"]}
                if d == "sqlite" and text and not rexc and not any(excs) and not (ms & {"unlogged", "with_system_versioning", "period_for"}):
                    engine += 1
                    err = sqlite_prepare(text)
                    if err and ("syntax error" in err or "near" in err):
                        rep.discrepancy([["sqlite-prepare", "create"] + sorted(ms)], {"sql": text, "engine": err, "calls": p["calls"]}, what="SQLite's parser rejects the statement")
            events.append({"tid": len(events), "d": d, "table": "ct", "orders": [{k: v for k, v in o.items() if k != "_sql"} for o in orders]})
            meta.append((d, key, orders))
    results = tlc.judge_shards("J_Ddl", "INIT Init\nNEXT Next\n", events, shard=max(100, len(events) // 16 + 1), heap="2g")
    rep.add_tlc(results)
    if sum(max(x.distinct - 1, 0) for x in results) != len(events):
        raise core.MachineryError("J_Ddl did not consume every event")
    for res in results:
        for v in res.json_tagged("V"):
            d, key, orders = meta[v["tid"]]
            byperm = {tuple(o["perm"]): o for o in orders}
            for kind, perm in sorted((f[0], tuple(f[1])) for f in v["form"]):
                o = byperm[perm]
                rep.discrepancy([[kind, "create", d, m] for m in sorted({c["m"] for c in o["calls"]})],
                                {"family": "create", "dialect": d, "calls": o["calls"], "sql": o["_sql"], "sequence_found": o["seq"], "exceptions": o["excs"] + [o["rexc"]]},
                                what=f"CREATE TABLE statement form: {kind}")
            for _, p1, p2 in sorted(v["comm"])[:1]:
                o1, o2 = byperm[tuple(p1)], byperm[tuple(p2)]
                diff = sorted({c["m"] for c in o1["calls"]})
                rep.discrepancy([["order-dependent", "create", d] + diff],
                                {"family": "create", "dialect": d, "order_1": o1["calls"], "sql_1": o1["_sql"], "order_2": o2["calls"], "sql_2": o2["_sql"]},
                                what="the same CREATE TABLE calls in another order render different SQL")
    return sum(len(e["orders"]) for e in events), {("create", m[1]) for m in meta}, engine


def _clause_alts(meths):
    return sorted(set(meths))


def replay(path: str) -> int:
    print(json.dumps(json.load(open(path))["example"], indent=1))
    return 0
