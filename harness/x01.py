"""X01 - behaviour OUTSIDE the property list (DESIGN.md section 7): is_aggregate votes, EmptyCriterion folds, CustomFunction arity, render paths, select-list rules, immutable=False.

Not a property of properties.jsonl and not in MANIFEST.json: the specification is grown to say what the library does here, and the
same generator / judge machinery binds it to the code.  A discrepancy means the library's behaviour moved away from what the
specification records (it is printed as a VIOLATION of "X01" and the run exits 1), not that a listed property broke.
Evidence goes to /verif/evidence_extra/X01.json.

spec:  PT_Meta (IsAgg / IsAggIntended with the named deviations, ResolveLaws, AggSound, AggAgree; FoldCrit, LeftIdentityOnly),
       PT_Sharing!MCall + MC_Mutable (SameContent, OneObject), MC_Meta (generator)
judge: J_Meta
"""
from __future__ import annotations

import json
import os

from harness import c01, catalog, core, execb, lexer, tlc


def vote(x):
    return {True: "T", False: "F", None: "N"}[x]


def select_items(toks):
    """[[qualifier, what], ...] of the outermost SELECT list: what = column name, "*", "FN" (a call) or "EXPR" """
    i0 = next(k for k, t in enumerate(toks) if t["t"] == "word" and t["v"] == "SELECT" and t["d"] == 0)
    i1 = next(k for k, t in enumerate(toks) if t["t"] == "word" and t["v"] == "FROM" and t["d"] == 0)
    items, cur = [], []
    for t in toks[i0 + 1:i1]:
        if t["t"] == "punct" and t["v"] == "," and t["d"] == 0:
            items.append(cur)
            cur = []
        else:
            cur.append(t)
    if cur:
        items.append(cur)
    out = []
    for it in items:
        v = [(t["t"], t["v"]) for t in it]
        if v[:1] == [("punct", "*")]:
            out.append(["", "*"])
        elif len(v) >= 3 and v[0][0] == "id" and v[1] == ("punct", ".") and v[2] == ("punct", "*"):
            out.append([v[0][1], "*"])
        elif len(v) >= 3 and v[0][0] == "id" and v[1] == ("punct", ".") and v[2][0] == "id":
            out.append([v[0][1], v[2][1]])
        elif v and v[0][0] == "word" and len(v) > 1 and v[1] == ("punct", "("):
            out.append(["", "FN"])
        elif v and v[0][0] == "id":
            out.append(["", v[0][1]])
        else:
            out.append(["", "EXPR"])
    return out


def run(tier: str) -> int:
    import pypika_tortoise as P
    from pypika_tortoise.terms import Criterion, EmptyCriterion

    rep = core.Report("X01", tier)
    rep.evid_dir = os.path.join(core.ROOT, "evidence_extra")
    # 1. design: vote laws, soundness of the recorded behaviour, agreement with the intended reading outside the named deviations
    r = tlc.run("MC_Meta", "INIT Init\nNEXT Next\nINVARIANT Laws\nINVARIANT Sound\nINVARIANT Identity\nINVARIANT Arity\nINVARIANT Frames\nINVARIANT Paths\nINVARIANT Loads\nINVARIANT Emit\n", workers=8, heap="4g")
    rep.add_tlc(r)
    if r.violation or not r.ok:
        raise core.MachineryError(f"PT_Meta violates {r.violation} (spec bug)\n{r.raw_tail[-1200:]}")
    trees = [x["tree"] for x in r.json_tagged("T")]
    folds = [x["parts"] for x in r.json_tagged("F")]
    env = execb.Env(core.query_classes()["generic"])
    events, meta = [], []
    for t in trees:
        term = env.term(t)
        events.append({"tid": len(events), "kind": "agg", "tree": t, "obs": vote(term.is_aggregate), "parts": [], "st": "", "ids": []})
        meta.append(("agg", t))
    t1 = P.Table("t1")
    crits = {"c1": lambda: t1.a == 1, "c2": lambda: t1.b == 2, "c3": lambda: t1.c == 3}
    ctx = core.contexts()["generic"]
    for how, fold, word in (("all", Criterion.all, "AND"), ("any", Criterion.any, "OR")):
        for parts in folds:
            res = fold([EmptyCriterion() if p == "E" else crits[p]() for p in parts])
            if isinstance(res, EmptyCriterion):
                st, ids = "E", []
            else:
                try:
                    toks = lexer.lex(res.get_sql(ctx), "sqlite")
                    # the criteria of the rendered conjunction, by their column, in order; anything but  col = n  joined by the word is a surprise
                    cols = [tk["v"] for tk in toks if tk["t"] == "id"]
                    words = {tk["v"] for tk in toks if tk["t"] == "word"}
                    if words - {word}:
                        raise core.MachineryError(f"unexpected words {words} in {res.get_sql(ctx)}")
                    st, ids = "ok", [{"a": "c1", "b": "c2", "c": "c3"}[c] for c in cols]
                except AttributeError:
                    st, ids = "unrenderable", []
            events.append({"tid": len(events), "kind": "fold", "tree": {"k": "num", "n": "0"}, "obs": "", "parts": parts, "st": st, "ids": ids})
            meta.append(("fold-" + how, parts))
    # 1a'. CustomFunction arity (PT_Meta!CustomCall): every declared parameter count x every number of arguments, with and without an alias
    from pypika_tortoise.terms import CustomFunction
    for declared in ("none", "0", "1", "2", "3"):
        for given in ("0", "1", "2", "3", "4"):
            for alias in (None, "ala"):
                cf = CustomFunction("FNX", None if declared == "none" else ["p%d" % k for k in range(int(declared))])
                try:
                    term = cf(*[P.Field("a%d" % k) for k in range(int(given))], **({"alias": alias} if alias else {}))
                    toks = lexer.lex(term.get_sql(ctx), "sqlite")
                    st, ids = "ok", [str(sum(1 for tk in toks if tk["t"] == "id"))]
                except Exception as ex:  # noqa
                    st, ids = type(ex).__name__, []
                events.append({"tid": len(events), "kind": "custom", "tree": {"k": "num", "n": "0"}, "obs": "", "parts": [declared, given], "st": st, "ids": ids})
                meta.append(("custom", {"declared": declared, "given": given, "alias": alias}))
    # 1a''. window frames (PT_Meta!WindowCall): every window shape x (no frame | every frame of the bound set, by rows() or range() | two frames)
    from pypika_tortoise import analytics as an

    def edge(b):
        return an.CURRENT_ROW if b == ["C"] else (an.Preceding if b[0] == "P" else an.Following)(None if b[1] < 0 else b[1])

    bounds = [["C"]] + [[s_, n] for s_ in ("P", "F") for n in (-1, 0, 1, 7)]
    all_frames = [{"unit": u, "lo": lo, "hi": hi} for u in ("ROWS", "RANGE") for lo in bounds for hi in bounds + [[]]]
    n_window = 0
    for fn_name, mkfn in (("SUM", lambda: an.Sum(t1.a)), ("FIRST_VALUE", lambda: an.FirstValue(t1.a)), ("LAST_VALUE", lambda: an.LastValue(t1.a).ignore_nulls())):
        for has_over in (False, True):
            for has_ord in (False, True):
                fsets = [[]] + [[f] for f in all_frames] + [[f, g] for f in all_frames[::17] for g in all_frames[::23]]
                for frames in fsets:
                    try:
                        term = mkfn()
                        if has_over:
                            term = term.over(t1.b)
                        if has_ord:
                            term = term.orderby(t1.c)
                        for f in frames:
                            term = getattr(term, f["unit"].lower())(edge(f["lo"]), *([edge(f["hi"])] if f["hi"] else []))
                        toks = lexer.lex(term.get_sql(ctx), "sqlite")
                        close = next(k for k, tk in enumerate(toks) if tk["t"] == "punct" and tk["v"] == ")" and tk["d"] == 0)
                        st, ids = "ok", [tk["v"] for tk in toks[close + 1:] if tk["t"] in ("word", "num")]
                    except Exception as ex:  # noqa
                        st, ids = type(ex).__name__, []
                    n_window += 1
                    events.append({"tid": len(events), "kind": "window", "over": has_over, "ord": has_ord, "frames": frames, "st": st, "ids": ids})
                    meta.append(("window", {"function": fn_name, "over": has_over, "orderby": has_ord, "frames": frames}))
    # 1a3. GROUP BY modifiers (PT_Meta!GroupStep / GroupRender): every history of MC_Group on three dialect builders
    rg = tlc.run("MC_Group", f"CONSTANT MaxCalls = {4 if tier == 'quick' else 5}\nINIT Init\nNEXT Next\nINVARIANT FoldAgrees\nINVARIANT Lost\nINVARIANT Mods\nINVARIANT Brackets\nINVARIANT Emit\n",
                 workers=8, heap="4g", timeout=1500)
    rep.add_tlc(rg)
    if rg.violation or not rg.ok:
        raise core.MachineryError(f"MC_Group: {rg.violation} (spec bug)\n{rg.raw_tail[-1200:]}")
    n_group = 0
    qcs_g = core.query_classes()
    for d in ("generic", "mysql", "postgresql"):
        for h in rg.json_tagged("G"):
            tg = P.Table("t1")
            q = qcs_g[d].from_(tg).select(tg.x)
            st, ids = "ok", []
            try:
                for c in h["hist"]:
                    cols = [getattr(tg, n) for n in c["cols"]]
                    q = q.groupby(*cols) if c["m"] == "groupby" else q.with_totals() if c["m"] == "totals" else \
                        q.rollup(*cols, **({"vendor": "mysql"} if c["m"] == "rollupM" else {}))
                toks = lexer.lex(str(q), core.lex_dialect(d))
                start = next((k for k, tk in enumerate(toks) if tk["t"] == "word" and tk["v"] == "GROUP" and tk["d"] == 0), None)
                ids = [] if start is None else [tk["v"] for tk in toks[start:]]
            except Exception as ex:  # noqa
                st, ids = type(ex).__name__, []
            n_group += 1
            events.append({"tid": len(events), "kind": "group", "hist": h["hist"], "st": st, "ids": ids})
            meta.append(("group", {"dialect": d, "calls": h["hist"]}))
    # 1a4. naming a table by a path (PT_Meta!TablePath): every route x name sequences (one dotted, one repeated) x alias x dialect builder
    from functools import reduce as _reduce
    from pypika_tortoise.queries import Schema, Database, make_tables

    def chain(ns):
        return _reduce(lambda par, n: Schema(n, parent=par), ns[1:], Schema(ns[0])) if ns else None

    def by_route(route, ns, al, qc):
        sch, tn = ns[:-1], ns[-1]
        if route == "kw_obj":
            return P.Table(tn, schema=chain(sch), alias=al or None, query_cls=qc)
        if route == "kw_str":
            return P.Table(tn, schema=sch[0], alias=al or None, query_cls=qc)
        if route in ("kw_list", "kw_tuple"):
            return P.Table(tn, schema=(list if route == "kw_list" else tuple)(sch), alias=al or None, query_cls=qc)
        if route == "attr":
            base = getattr(Database(sch[0]), sch[1]) if len(sch) == 2 else Schema(sch[0])
            tb = getattr(base, tn)
            return tb.as_(al) if al else tb
        return make_tables((tn, al) if route == "make_al" and al else tn, schema=chain(sch), query_cls=qc)[0]

    n_path = 0
    name_pool = ("t", "s", "d", "d.x", "sel ect", "T")
    seqs = [[a] for a in name_pool] + [[a, b] for a in name_pool for b in name_pool] + [[a, b, c] for a in name_pool[:4] for b in name_pool[:4] for c in name_pool]
    applies = {"kw_str": (2,), "kw_list": (2, 3), "kw_tuple": (2, 3), "attr": (2, 3)}
    for d in ("generic", "mysql", "postgresql", "mssql", "oracle", "sqlite"):
        if d not in qcs_g:
            continue
        for route in ("kw_obj", "kw_str", "kw_list", "kw_tuple", "attr", "make", "make_al"):
            for ns in seqs:
                if len(ns) not in applies.get(route, (1, 2, 3)) or (route == "attr" and any(n.startswith("_") for n in ns)):
                    continue
                for al in ("", "al"):
                    if (route == "make_al") != bool(al) and route in ("make", "make_al"):
                        continue
                    tb = by_route(route, ns, al, qcs_g[d])
                    ref = by_route("kw_obj", ns, al, qcs_g[d])
                    toks = lexer.lex(str(qcs_g[d].from_(tb).select("*")), core.lex_dialect(d))
                    k0 = next(k for k, tk in enumerate(toks) if tk["t"] == "word" and tk["v"] == "FROM")
                    n_path += 1
                    events.append({"tid": len(events), "kind": "path", "route": route, "names": ns, "alias": al, "ids": [tk["v"] for tk in toks[k0:] if tk["t"] == "id"],
                                   "eq": bool(tb == ref and ref == tb and hash(tb) == hash(ref))})
                    meta.append(("path", {"dialect": d, "route": route, "names": ns, "alias": al}))
    # 1a5. MySQL LOAD DATA as a two-slot builder (PT_Meta!LoadOutcome): every history of <= 4 load / into calls (names with a quote, a backslash, empty)
    import itertools as _it
    from pypika_tortoise.dialects.mysql import MySQLLoadQueryBuilder

    n_load = 0
    load_calls = [("load", "f1"), ("load", "f 2.csv"), ("load", ""), ("load", "a'b"), ("load", "c\\d"), ("into", "t1"), ("into", "t 2"), ("intoT", "t3")]
    for n in range(0, 5 if tier != "quick" else 4):
        for hist in _it.product(load_calls, repeat=n):
            b = MySQLLoadQueryBuilder()
            for m_, v_ in hist:
                b = b.load(v_) if m_ == "load" else b.into(v_ if m_ == "into" else P.Table(v_))
            toks = lexer.lex(str(b), "mysql")
            n_load += 1
            events.append({"tid": len(events), "kind": "loadq", "hist": [{"m": "into" if m_ == "intoT" else m_, "v": v_} for m_, v_ in hist],
                           "ids": [tk["v"] for tk in toks if tk["t"] in ("word", "str", "id") or (tk["t"] == "punct" and tk["v"] == ",")]})
            meta.append(("loadq", {"calls": [list(c) for c in hist]}))
    # 1b. render paths: every catalogue statement (seed, and seed + one call) through str / repr / get_sql() / get_sql(class context)
    import hashlib

    fams0 = catalog.families()
    n_paths = 0
    for fname in sorted(fams0):
        fam = fams0[fname]
        if not (fname.startswith("qb_") or fname.startswith("setop") or fname.startswith("ddl") or fname.startswith("create")):
            continue
        for sname in fam.seeds:
            for lname in [None] + [l for l in fam.labels if "#pool" not in l]:
                catalog.reset_pool()
                try:
                    o = fam.seeds[sname]()
                    if lname:
                        o = fam.labels[lname].fn(o)
                    qc = getattr(o, "QUERY_CLS", None)
                    if qc is None or not hasattr(o, "get_sql"):
                        continue
                    outs = [str(o), repr(o), o.get_sql(), o.get_sql(qc.SQL_CONTEXT)]
                except Exception:  # noqa  (a rejected call / a statement that does not render: nothing to compare)
                    continue
                n_paths += 1
                events.append({"tid": len(events), "kind": "paths", "tree": {"k": "num", "n": "0"}, "obs": "", "parts": [], "st": "",
                               "ids": [hashlib.sha1(x.encode("utf-8", "surrogatepass")).hexdigest()[:10] for x in outs]})
                meta.append(("paths", {"family": fname, "seed": sname, "label": lname, "texts": outs}))
    results = tlc.judge_shards("J_Meta", "INIT Init\nNEXT Next\n", events, shard=max(500, len(events) // 8 + 1))
    rep.add_tlc(results)
    if sum(max(x.distinct - 1, 0) for x in results) != len(events):
        raise core.MachineryError("J_Meta did not consume every event")
    for res in results:
        for v in res.json_tagged("V"):
            kind, what = meta[v["tid"]]
            e = events[v["tid"]]
            if kind == "loadq":
                rep.discrepancy([["load-data"] + [c[0] for c in what["calls"]]], dict(what, recorded_outcome=v["want"], observed=e["ids"]),
                                what="the LOAD DATA statement differs from the recorded two-slot rule")
            elif kind == "path":
                rep.discrepancy([["table-path", what["dialect"], what["route"], len(what["names"]), bool(what["alias"])]], dict(what, recorded_outcome=v["want"], observed=e["ids"], equal_to_kw_obj=e["eq"]),
                                what="the FROM clause / equality of a table named by a path differs from the recorded route-independent rule")
            elif kind == "group":
                rep.discrepancy([["group-by", what["dialect"]] + [c["m"] + ":" + str(len(c["cols"])) for c in what["calls"]]], dict(what, recorded_outcome=v["want"], observed=e["st"], tokens=e["ids"]),
                                what="the GROUP BY clause differs from the recorded groupby / rollup / with_totals rules")
            elif kind == "window":
                rep.discrepancy([["window-frame", what["function"], what["over"], what["orderby"], len(what["frames"])]], dict(what, recorded_outcome=v["want"], observed=e["st"], tokens=e["ids"]),
                                what="the window clause differs from the recorded frame rule")
            elif kind == "custom":
                rep.discrepancy([["custom-function", what["declared"], what["given"]]], dict(what, recorded_outcome=v["want"], observed=e["st"], arguments_rendered=e["ids"]),
                                what="CustomFunction call differs from the recorded arity rule")
            elif kind == "paths":
                rep.discrepancy([["render-paths", what["family"], what["label"] or ""]], what, what="str / repr / get_sql() / get_sql(class context) give different texts")
            elif kind == "agg":
                rep.discrepancy([["is_aggregate", what["k"], what.get("op", "") or what.get("f", ""), v["want"], e["obs"]]],
                                {"tree": what, "recorded_behaviour": v["want"], "observed": e["obs"]}, what="is_aggregate differs from the recorded vote")
            else:
                rep.discrepancy([[kind, v["want"], e["st"]]], {"parts": what, "recorded_outcome": v["want"], "observed": e["st"], "ids": e["ids"]},
                                what="EmptyCriterion fold differs from the recorded left-identity behaviour")
    # 1c. select-list rules (PT_Builder!SelItem): columns after "*" / after their table's star, stars replacing columns, twins of a table
    from harness.c11 import gen
    rs = tlc.run("MC_SelGen", f"CONSTANTS\nMaxCalls = {2 if tier == 'quick' else 3}\nWide = {'TRUE' if tier == 'quick' else 'FALSE'}\nSrcTab <- G_SrcTab\n"
                 "INIT Init\nNEXT Next\nINVARIANT SelSane\nINVARIANT Emit\n", workers=8, heap="4g", extra_files={"MC_SelGen.tla": gen("MC_Sel")}, timeout=1500)
    rep.add_tlc(rs)
    if rs.violation or not rs.ok:
        raise core.MachineryError(f"MC_Sel: {rs.violation} (spec bug)\n{rs.raw_tail[-1200:]}")
    sel_events, sel_meta = [], []
    qcs = core.query_classes()
    for d in ("generic", "mysql", "postgresql"):
        for h in rs.json_tagged("H"):
            env_s = execb.Env(qcs[d])
            q, excs = env_s.run(h["hist"])
            exc, text, items = next((e for e in excs if e), ""), "", []
            if not exc:
                try:
                    text = str(q)
                    items = select_items(lexer.lex(text, core.lex_dialect(d)))
                except Exception as ex:  # noqa
                    exc = type(ex).__name__
            sel_events.append({"tid": len(sel_events), "hist": h["hist"], "exc": exc, "items": items})
            sel_meta.append((d, h, text))
    res_s = tlc.judge_shards("J_SelGen", "CONSTANT SrcTab <- G_SrcTab\nINIT Init\nNEXT Next\n", sel_events, shard=max(500, len(sel_events) // 8 + 1),
                             extra_files={"J_SelGen.tla": gen("J_Sel")}, timeout=1500)
    rep.add_tlc(res_s)
    if sum(max(x.distinct - 1, 0) for x in res_s) != len(sel_events):
        raise core.MachineryError("J_Sel did not consume every event")
    for res in res_s:
        for v in res.json_tagged("V"):
            d, h, text = sel_meta[v["tid"]]
            calls = ["*" if c["m"] == "selectstr" and c["name"] == "*" else "str" if c["m"] == "selectstr" else
                     "+".join(("star:" if t["k"] == "star" else "fn" if t["k"] == "call" else "col:") + t.get("src", "") for t in c["terms"]) for c in h["hist"][2:]]
            rep.discrepancy([["select-list", d] + calls], {"dialect": d, "calls": h["hist"][2:], "sql": text, "recorded_select_list": v["want"],
                                                           "observed": sel_events[v["tid"]]["items"], "error": sel_events[v["tid"]]["exc"]},
                            what="the select list differs from the recorded star / column rules")
    # 2. immutable=False on the heap model (measured tables of the query-builder scenarios), then on the real builders
    fams = catalog.families()
    scens = [(f"{fn}.{sn}", fn, sn) for fn in ("qb_generic", "qb_postgresql", "qb_mysql") for sn in ("from", "full", "upsert")]
    meas = {sid: c01.measure(fams[fname], sname) for sid, fname, sname in scens}
    mod = c01.tables_module(scens, meas, False).replace("MODULE MC_SharingGen", "MODULE MC_MutableGen").replace("EXTENDS MC_Sharing", "EXTENDS MC_Mutable")
    cfg = ("CONSTANTS\nScen <- G_Scen\nLabelsOf <- G_LabelsOf\nHotOf <- G_HotOf\nK <- G_K\nRecopied <- G_Recopied\nEff <- G_Eff\nMaxLen = 3\n"
           "INIT Init\nNEXT Next\nINVARIANT SameContent\nINVARIANT OneObject\n")
    rm = tlc.run("MC_MutableGen", cfg, workers=16, heap="6g", extra_files={"MC_MutableGen.tla": mod}, timeout=1800)
    rep.add_tlc(rm)
    if rm.violation or not rm.ok:
        raise core.MachineryError(f"MC_Mutable violates {rm.violation} (spec bug)\n{rm.raw_tail[-1200:]}")
    n_mut = 0
    for fname in ("qb_generic", "qb_postgresql", "qb_mysql", "qb_mssql"):
        fam = fams[fname]
        labs = [l for l in fam.labels if "#pool" not in l and not l.startswith(("auto#", "wrap#"))]
        for sname in ("from", "insert", "update"):
            for l1 in labs:
                for l2 in labs[:: (1 if tier != "quick" else 3)]:
                    catalog.reset_pool()
                    try:
                        imm = fam.labels[l2].fn(fam.labels[l1].fn(fam.seeds[sname]()))
                        want = str(imm)
                    except Exception:  # noqa  (a rejected call: nothing to compare)
                        continue
                    seed = fam.seeds[sname]()
                    if not hasattr(seed, "immutable"):
                        continue
                    seed.immutable = False
                    try:
                        r1 = fam.labels[l1].fn(seed)
                        r2 = fam.labels[l2].fn(r1)
                        got = str(r2)
                    except Exception as ex:  # noqa
                        rep.discrepancy([["mutable-mode", "raises", l1, l2]], {"family": fname, "seed": sname, "calls": [l1, l2], "error": repr(ex)[:200]},
                                        what="a chain accepted in the default mode raises with immutable=False")
                        continue
                    n_mut += 1
                    same_obj = (r1 is seed or type(r1) is not type(seed)) and (r2 is seed or type(r2) is not type(seed))
                    if got != want or not same_obj:
                        rep.discrepancy([["mutable-mode", "differs" if got != want else "copied", l1, l2]],
                                        {"family": fname, "seed": sname, "calls": [l1, l2], "default_mode": want, "mutable_mode": got, "returned_receiver": same_obj},
                                        what="immutable=False: the chain does not end in the same statement / does not return the receiver")
    rep.traces = len(events) + n_mut + len(sel_events)
    rep.evaluations = rep.traces
    rep.distinct = {json.dumps(m[1], sort_keys=True) for m in meta}
    rep.extra.update({"select_list_programs": len(sel_events), "render_path_statements": n_paths, "window_frame_calls": n_window, "load_data_histories": n_load, "table_path_events": n_path, "group_by_histories": n_group, "is_aggregate_trees": len(trees), "empty_criterion_folds": 2 * len(folds), "mutable_mode_chains": n_mut,
                      "mutable_model_states": rm.distinct})
    rep.sample({"tree": trees[0], "is_aggregate": events[0]["obs"]})
    rep.rule = ("behaviours outside the property list: is_aggregate of every tree of MC_Meta (depth <= 2 over leaves of every vote) vs PT_Meta!IsAgg; "
                "Criterion.all / any over every sequence of <= 4 parts from {EmptyCriterion, c1, c2, c3} vs FoldCrit; "
                "window frames (every window shape x 180 frames x rows / range, second frames) vs WindowCall; GROUP BY modifiers (every history of MC_Group on three builders) vs GroupOutcome; "
                "tables named by a path (seven routes x name sequences x alias x six builders) vs TablePath; immutable=False: MC_Mutable on the "
                "measured sharing tables (SameContent, OneObject) and two-call chains of the catalogue on real builders in both modes")
    rep.exhaustive = True
    return rep.finish()


def replay(path: str) -> int:
    print(json.dumps(json.load(open(path))["example"], indent=1))
    return 0
