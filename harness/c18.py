"""C18 - interval literals encode exactly the requested duration.

spec:  PT_Interval (intended encoder Enc, field-layout decoder Dec, RoundTrip), MC_Interval (design check over Vals^7 x sign)
judge: J_C18 (decodes the characters REAL Interval.get_sql emitted, compares with the constructor arguments)
"""
from __future__ import annotations

import itertools
import json
import random

from harness import core, tlc

UNITS = ["years", "months", "days", "hours", "minutes", "seconds", "microseconds"]
TEMPLATE_CLASS = {"generic": "in", "sqlite": "in", "mssql": "in", "postgresql": "in", "mysql": "out", "oracle": "out"}
REP = {"in": "postgresql", "out": "mysql"}


def tuples(vals, tier, rnd):
    allv = list(itertools.product(vals, repeat=7))
    return allv


def observe(cases):
    """cases: list of (kind, tuple) -> events, one per distinct (text, template class)"""
    from pypika_tortoise import Interval

    ctxs = core.contexts()
    events = []
    for kind, c in cases:
        if kind == "ymd":
            iv = Interval(**dict(zip(UNITS, c)))
        elif kind == "quarter":
            iv = Interval(quarters=c[0])
        else:
            iv = Interval(weeks=c[0])
        seen = {}
        for d, ctx in ctxs.items():
            text = iv.get_sql(ctx)
            key = (text, TEMPLATE_CLASS[d])
            seen.setdefault(key, []).append(d)
        for (text, cls), ds in seen.items():
            events.append({"tid": len(events), "kind": kind, "c": list(c), "d": REP[cls] if REP[cls] in ds else ds[0],
                           "chars": [ord(ch) for ch in text], "text": text, "ctxs": ds})
    return events


def embedded(cases, rep):
    """the same intervals used as operands inside statements of every dialect class: the literal found in the statement text is
    judged like the stand-alone one (an operand position must not fall back to another dialect's template)"""
    import re

    from pypika_tortoise import Case, Interval, Table
    from pypika_tortoise import functions as fn

    t = Table("t")
    sites = {
        "add": lambda Q, iv: Q.from_(t).select(t.d + iv),
        "sub-where": lambda Q, iv: Q.from_(t).select(t.a).where(t.d > fn.Now() - iv),
        "func-arg": lambda Q, iv: Q.from_(t).select(fn.Coalesce(t.d, iv)),
        "case": lambda Q, iv: Q.from_(t).select(Case().when(t.a == 1, t.d + iv).else_(t.d)),
        "set": lambda Q, iv: Q.update(t).set(t.d, t.d - iv),
        "insert": lambda Q, iv: Q.into(t).insert(1, fn.Now() + iv),
        "subquery": lambda Q, iv: Q.from_(t).select(t.a).where(t.a.isin(Q.from_(t).select(t.a).where(t.d < fn.Now() - iv))),
        "having": lambda Q, iv: Q.from_(t).select(t.a).groupby(t.a).having(fn.Max(t.d) > fn.Now() - iv),
    }
    pat = re.compile(r"INTERVAL '[^']*'(?: (?:YEAR|MONTH|DAY|HOUR|MINUTE|SECOND|MICROSECOND|WEEK|QUARTER)(?:_[A-Z]+)?(?![A-Z_]))?")
    events = []
    for kind, c in cases:
        kw = dict(zip(UNITS, c)) if kind == "ymd" else {("quarters" if kind == "quarter" else "weeks"): c[0]}
        for d, Q in core.query_classes().items():
            for sname, f in sites.items():
                try:
                    text = str(f(Q, Interval(**kw)))
                except Exception as ex:  # noqa
                    rep.discrepancy([["embedded", sname, d, "raises:" + type(ex).__name__]], {"kind": kind, "c": list(c), "site": sname, "dialect": d},
                                    what="an interval operand makes building / rendering raise")
                    continue
                m = pat.findall(text)
                if len(m) != 1:
                    rep.discrepancy([["embedded", sname, d, "no-single-literal"]], {"kind": kind, "c": list(c), "site": sname, "dialect": d, "text": text},
                                    what="the statement does not contain exactly one interval literal")
                    continue
                events.append({"kind": kind, "c": list(c), "d": REP[TEMPLATE_CLASS[d]], "chars": [ord(ch) for ch in m[0]], "text": text, "ctxs": [d], "site": sname})
    return events


def run(tier: str) -> int:
    rep = core.Report("C18", tier)
    rnd = random.Random(core.seed())
    vals = [0, 1, 10, 105] if tier == "quick" else [0, 1, 5, 10, 20, 100, 105]
    # 1. design level: the intended encoder round-trips over the same domain
    cfg = "CONSTANT Vals = {%s}\nINIT Init\nNEXT Next\nINVARIANT RoundTripAll\nINVARIANT SingleAll\n" % ",".join(map(str, vals))
    r = tlc.run("MC_Interval", cfg, workers=16, heap="8g", timeout=3000)
    rep.add_tlc(r)
    if r.violation or not r.ok:
        raise core.MachineryError(f"intended interval encoder does not round-trip: {r.violation}\n{r.raw_tail[-1500:]}")
    # 2. the same domain through the real encoder
    cases = []
    for c in itertools.product(vals, repeat=7):
        cases.append(("ymd", c))
        nz = [i for i, v in enumerate(c) if v]
        if nz:
            neg = list(c)
            neg[nz[0]] = -neg[nz[0]]
            cases.append(("ymd", tuple(neg)))
    for v in sorted(set(vals) | {2, 7, 13}):
        for s in (1, -1):
            if v:
                cases.append(("quarter", (s * v,)))
                cases.append(("week", (s * v,)))
    # seeded values beyond the digit-pattern set
    for _ in range(2000 if tier == "quick" else 20000):
        c = [0] * 7
        for i in rnd.sample(range(7), rnd.randint(1, 7)):
            c[i] = rnd.choice([rnd.randint(1, 9), rnd.randint(10, 99) * 10, rnd.randint(100, 99999), 10 ** rnd.randint(1, 5)])
        if rnd.random() < 0.3:
            k = min(i for i in range(7) if c[i])
            c[k] = -c[k]
        cases.append(("ymd", tuple(c)))
    events = observe(cases)
    # a microsecond component of seven and more digits (a whole number of seconds and more: the literal carries the digits as given, nothing is
    # carried into the seconds), alone and under larger units, leading component of either sign
    for us in (1000000, 2500000, 12345678, 999999, 1000001):
        for lead in ((), (5, 1), (4, 2), (5, -1), (3, -3), (2, 7)):
            c = [0] * 7
            c[6] = us
            if lead:
                c[lead[0]] = lead[1]
            cases.append(("ymd", tuple(c)))
        cases.append(("ymd", (0, 0, 0, 0, 0, 0, -us)))
    # operand positions: every digit-pattern class once (values 0/1/10/105 over 7 fields, first 300 + every 29th) and the seeded ones sparsely
    emb = embedded([c for k, c in enumerate(cases) if k < 300 or k % (29 if tier == "quick" else 7) == 0], rep)
    for e in emb:
        e["tid"] = len(events)
        events.append(e)
    slim = [{k: e[k] for k in ("tid", "kind", "c", "d", "chars")} for e in events]
    results = tlc.judge_shards("J_C18", "INIT Init\nNEXT Next\n", slim, shard=max(3000, len(slim) // 16 + 1))
    rep.add_tlc(results)
    judged = sum(max(r.distinct - 1, 0) for r in results)
    if judged != len(events):
        raise core.MachineryError(f"judge consumed {judged} of {len(events)} events")
    bad = {}
    for r in results:
        for v in r.json_tagged("V"):
            bad[v["tid"]] = v
    rep.traces = len(events)
    rep.evaluations = sum(len(e["ctxs"]) for e in events)
    rep.distinct = {(e["kind"], tuple(e["c"])) for e in events}
    for tid in sorted(bad, key=lambda t: (len(bad[t]["disc"]), sum(abs(x) for x in events[t]["c"]))):
        e = events[tid]
        sigs = [_sig(s) for s in bad[tid]["disc"]]
        if e.get("site"):
            sigs = sigs + [["embedded", e["site"], e["ctxs"][0]] + x for x in sigs]
        rep.discrepancy(sorted(sigs) if not e.get("site") else sigs, {"kind": e["kind"], "c": e["c"], "text": e["text"], "ctxs": e["ctxs"]},
                        what="literal does not denote the supplied components")
    for e in events[:: max(1, len(events) // 5)]:
        rep.sample({"args": e["c"], "kind": e["kind"], "text": e["text"], "ctxs": e["ctxs"], "verdict": "decodes to args" if e["tid"] not in bad else "discrepancy"})
    rep.rule = (f"all 7-tuples over {vals} with the leading non-zero component of either sign, quarters and weeks, plus seeded "
                "multi-digit tuples; each through the real Interval.get_sql under 6 contexts; TLC decodes the emitted characters "
                "with PT_Interval!Dec; distinct = distinct argument tuples; a sample of the tuples is also used as an operand at 8 statement positions "
                "under the 6 dialect classes and the literal found in the statement is judged the same way")
    rep.exhaustive = True
    rep.assumptions = ["components read as integer fields per the unit designator (not MySQL fractional-second padding)"]
    return rep.finish()


def _sig(s):
    def dec(x):
        return "".join(map(chr, x)) if isinstance(x, list) else x
    return [dec(x) for x in s]


def replay(path: str) -> int:
    from pypika_tortoise import Interval

    ex = json.load(open(path))["example"]
    kw = dict(zip(UNITS, ex["c"])) if ex["kind"] == "ymd" else {ex["kind"] + "s": ex["c"][0]}
    for d, ctx in core.contexts().items():
        print(d, Interval(**kw).get_sql(ctx))
    print("arguments:", kw)
    return 0
