"""Maintenance tool (never run by a check): drop known_findings.json entries of one property whose signature was not
printed as KNOWN-FINDING by the given log files (output of ./check on the unchanged tree, every tier).
usage: python tools/prune_known.py C08 log1 [log2 ...]"""
import json
import re
import sys

prop, logs = sys.argv[1], sys.argv[2:]
seen = set()
for p in logs:
    for line in open(p):
        m = re.match(r"KNOWN-FINDING: property=%s sig=(\[.*?\]) " % prop, line)
        if m:
            seen.add(json.dumps(json.loads(m.group(1)), sort_keys=True, separators=(",", ":")))
path = "/verif/known_findings.json"
data = json.load(open(path))
keep, drop = [], 0
for f in data["findings"]:
    if f["property"] == prop and json.dumps(f["sig"], sort_keys=True, separators=(",", ":")) not in seen:
        drop += 1
        continue
    keep.append(f)
data["findings"] = keep
json.dump(data, open(path, "w"), indent=1)
print("dropped", drop, "kept", sum(1 for f in keep if f["property"] == prop))
