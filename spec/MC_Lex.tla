------------------------------- MODULE MC_Lex -------------------------------
(* Design check for C05 / C07: the intended encoders round-trip through the *)
(* reference lexer for every string over the adversarial alphabet up to     *)
(* length MaxLen, in every dialect, stand-alone and embedded.               *)
EXTENDS PT_Lex
CONSTANTS MaxLen
Alphabet == {97, 49, 32, 39, 34, 96, 92, 45, 47, 42, 37, 63, 36, 59, 10, 0, 233, 46, 91, 93}
Dialects == {"sqlite", "mysql", "postgresql", "mssql", "oracle"}
Strings == UNION {[1..n -> Alphabet] : n \in 0..MaxLen}
VARIABLES v, d
Init == v \in Strings /\ d \in Dialects
Next == UNCHANGED <<v, d>>
PreA == <<83, 69, 76, 69, 67, 84, 32>>           \* SELECT_
SufA == <<44, 39, 98, 39, 32, 70, 82, 79, 77, 32, 34, 116, 34>>   \* ,'b' FROM "t"
Lit == LitRoundTrip(v, d)
Ident == v = <<>> \/ IdentRoundTrip(v, d)
Emb == Embeds(PreA, v, SufA, d)
EmbI == v = <<>> \/ EmbedsIdent(PreA, v, <<46>> \o EncIdent(<<99>>, IdentQuoteOf(d)), d)
=============================================================================
