----------------------------- MODULE MC_Sharing -----------------------------
(* Model-checking / generation wrapper of PT_Sharing: the scenario tables    *)
(* come from a generated module SharingTables (measured on the code, or the *)
(* intended variant derived from them).                                      *)
EXTENDS PT_Sharing, Json
\* every reachable state is one call history; print it with the model's verdict
Emit == PrintT("H " \o ToJson([s |-> scen, h |-> hist, ch |-> Changed]))
=============================================================================
