#!/bin/bash
# usage: tools/seed.sh <src-dir with patch.diff demo.py meta.json> <seed-id e.g. C18-a> <check ids...>
# 1. confirms the mutant in a scratch worktree (suite passes, demo fails with / passes without)
# 2. applies it to /repo, runs the named checks (quick), reverts /repo
# 3. stores it under /verif/seeded/<seed-id>/
set -u
SRC=$1; ID=$2; shift 2
WT=/tmp/seedwt-$ID
OUT=/verif/seeded/$ID
rm -rf "$WT"; git -C /repo worktree add -q --detach "$WT" HEAD || exit 2
cd "$WT"
if ! git apply "$SRC/patch.diff" 2>/dev/null; then
  if git apply -3 "$SRC/patch.diff" 2>/dev/null; then echo "(patch rebased with 3-way merge onto current HEAD)"; git reset -q; git diff HEAD > /tmp/seed-$ID-rebased.diff; SRCPATCH=/tmp/seed-$ID-rebased.diff
  else echo "PATCH DOES NOT APPLY"; git -C /repo worktree remove --force "$WT"; exit 3; fi
fi
SRCPATCH=${SRCPATCH:-$SRC/patch.diff}
SUITE=$(PYTHONPATH=$WT /venv/bin/python -m pytest -q -p no:cacheprovider 2>&1 | tail -1)
PYTHONPATH=$WT /venv/bin/python "$SRC/demo.py" >/tmp/seed-demo-with.log 2>&1; DW=$?
git reset -q --hard HEAD ; git clean -fdq
PYTHONPATH=$WT /venv/bin/python "$SRC/demo.py" >/tmp/seed-demo-without.log 2>&1; DWO=$?
cd /verif; git -C /repo worktree remove --force "$WT"
echo "suite-with: $SUITE | demo-with exit=$DW | demo-without exit=$DWO"
mkdir -p "$OUT"; cp "$SRCPATCH" "$OUT/patch.diff"; cp "$SRC/demo.py" "$OUT/"
RES=""
if [ -n "$(git -C /repo status --porcelain)" ]; then echo "/repo not clean"; exit 2; fi
git -C /repo apply "$OUT/patch.diff" || { echo "cannot apply to /repo"; exit 3; }
for C in "$@"; do
  VERIF_EVIDENCE_DIR=/tmp/seed-ev VERIF_REPLAY_DIR=/tmp/seed-rp ./check "$C" --tier quick > /tmp/seed-$ID-$C.log 2>&1; RC=$?
  V=$(grep -c '^VIOLATION' /tmp/seed-$ID-$C.log)
  echo "check $C: exit=$RC violations=$V"; grep -A1 '^VIOLATION' /tmp/seed-$ID-$C.log | head -6 | cut -c1-400
  RES="$RES $C:exit=$RC:violations=$V"
done
git -C /repo checkout -q -- . ; git -C /repo clean -fdq pypika_tortoise
/venv/bin/python - "$SRC/meta.json" "$OUT/meta.json" "$SUITE" "$DW" "$DWO" "$RES" <<'PY'
import json,sys
src,out,suite,dw,dwo,res=sys.argv[1:7]
try: m=json.load(open(src))
except Exception: m={}
m["confirmed"]={"suite_with_change":suite,"demo_exit_with_change":int(dw),"demo_exit_without_change":int(dwo)}
m["checks_run"]=res.split()
m["detected"]=any(":exit=1:" in r for r in res.split())
json.dump(m,open(out,"w"),indent=1)
print("detected:",m["detected"])
PY
