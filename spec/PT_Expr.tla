----------------------------- MODULE PT_Expr -----------------------------
(***************************************************************************)
(* Expression trees of pypika-tortoise, the INTENDED bracket rule, and a    *)
(* reference precedence parser for the token streams the library emits.     *)
(*                                                                          *)
(*  - Tree / Edges / Canon : the abstract expression a program builds       *)
(*  - Render               : intended renderer (NeedParens of DESIGN App.D) *)
(*  - Parse                : Pratt parser under standard SQL precedence     *)
(*  - ParseBack            : Canon(Parse(Render(t))) = Canon(t)             *)
(*                           (checked by TLC on the intended design, and    *)
(*                           with the real renderer's tokens in J_C06)      *)
(*                                                                          *)
(* Trees are tagged records (tag field k is always tested first):           *)
(*   [k|->"fld", n]  [k|->"num", n]   (n a string; "-1" is a negative lit.) *)
(*   [k|->"str", n]  [k|->"null"]                                           *)
(*   [k|->"bin", op, l, r]   op in + - * / , = <> < <= > >= , AND OR XOR     *)
(*   [k|->"neg", a]  [k|->"not", a]  [k|->"isnull", a]                      *)
(*   [k|->"in", a, items]  [k|->"between", a, lo, hi]                       *)
(*   [k|->"call", f, args]  [k|->"case", w, t, e]                           *)
(* Tokens are records [t, v] with t in id num str word punct ph comment err *)
(***************************************************************************)
EXTENDS Naturals, Integers, Sequences, FiniteSets, TLC

ArithOps == {"+", "-", "*", "/"}
CmpOps   == {"=", "<>", "<", "<=", ">", ">="}
BoolOps  == {"AND", "OR", "XOR"}

\* binding power, weakest first (App. D)
BP(op) == CASE op = "OR"  -> 1
            [] op = "XOR" -> 2
            [] op = "AND" -> 3
            [] op = "NOT" -> 4
            [] op \in CmpOps \cup {"IN", "BETWEEN", "ISNULL", "LIKE"} -> 5
            [] op \in {"+", "-"} -> 6
            [] op \in {"*", "/"} -> 7
            [] op = "NEG" -> 8
            [] OTHER -> 9

\* negative numerals known to the models (TLC cannot look inside a string)
NegNumTable == [x \in {"-1", "-2", "-3", "-5", "-7"} |->
                  CASE x = "-1" -> "1" [] x = "-2" -> "2" [] x = "-3" -> "3" [] x = "-5" -> "5" [] OTHER -> "7"]
NegNums == DOMAIN NegNumTable
AbsNum(n) == NegNumTable[n]

IsNegLit(t) == t.k = "num" /\ Len(t.n) > 0 /\ t.n \in NegNums
\* TLC cannot index strings; negative literals are recognised by membership
\* in the finite set of negative numerals that the models use.

\* the "operator" of a node, as used in Edges / NeedParens (leaves have kinds)
OpOf(t) == CASE t.k = "bin" -> t.op
             [] t.k = "neg" -> "NEG"
             [] t.k = "not" -> "NOT"
             [] t.k = "isnull" -> "ISNULL"
             [] t.k = "in" -> "IN"
             [] t.k = "between" -> "BETWEEN"
             [] t.k = "num" -> IF t.n \in NegNums THEN "negnum" ELSE "num"
             [] OTHER -> t.k

(***************************************************************************)
(* Children with their side labels                                          *)
(***************************************************************************)
Kids(t) == CASE t.k = "bin" -> {<<"L", t.l>>, <<"R", t.r>>}
             [] t.k \in {"neg", "not", "isnull"} -> {<<"A", t.a>>}
             [] t.k = "in" -> {<<"A", t.a>>} \cup {<<"I", t.items[i]>> : i \in DOMAIN t.items}
             [] t.k = "between" -> {<<"A", t.a>>, <<"LO", t.lo>>, <<"HI", t.hi>>}
             [] t.k = "call" -> {<<"ARG", t.args[i]>> : i \in DOMAIN t.args}
             [] t.k = "case" -> {<<"W", t.w>>, <<"T", t.t>>, <<"E", t.e>>}
             [] OTHER -> {}

RECURSIVE Edges(_)
Edges(t) == UNION { {<<OpOf(t), OpOf(kd[2]), kd[1]>>} \cup Edges(kd[2]) : kd \in Kids(t) }

RECURSIVE Depth(_)
Depth(t) == IF Kids(t) = {} THEN 0
            ELSE 1 + (CHOOSE m \in {Depth(kd[2]) : kd \in Kids(t)} :
                         \A x \in {Depth(kd[2]) : kd \in Kids(t)} : x <= m)

(***************************************************************************)
(* Canonical form: brackets are transparent; a pure +/- chain becomes a     *)
(* signed sequence, a pure * chain and a one-connective AND / OR chain a    *)
(* sequence (XOR, equally associative, is treated the same way: the         *)
(* lenient reading); a negative numeral is the negation of its absolute     *)
(* value.                                                                   *)
(***************************************************************************)
RECURSIVE Canon(_), SumItems(_, _), ProdItems(_), ChainItems(_, _), CanonSeq(_)

CanonSeq(s) == [i \in DOMAIN s |-> Canon(s[i])]

SumItems(t, sign) ==
    IF t.k = "bin" /\ t.op = "+" THEN SumItems(t.l, sign) \o SumItems(t.r, sign)
    ELSE IF t.k = "bin" /\ t.op = "-" THEN SumItems(t.l, sign) \o SumItems(t.r, 0 - sign)
    ELSE << [s |-> sign, t |-> Canon(t)] >>

ProdItems(t) ==
    IF t.k = "bin" /\ t.op = "*" THEN ProdItems(t.l) \o ProdItems(t.r)
    ELSE << Canon(t) >>

ChainItems(t, op) ==
    IF t.k = "bin" /\ t.op = op THEN ChainItems(t.l, op) \o ChainItems(t.r, op)
    ELSE << Canon(t) >>

Canon(t) ==
    CASE t.k = "bin" /\ t.op \in {"+", "-"} -> [k |-> "sum", items |-> SumItems(t, 1)]
      [] t.k = "bin" /\ t.op = "*" -> [k |-> "prod", items |-> ProdItems(t)]
      [] t.k = "bin" /\ t.op \in {"AND", "OR", "XOR"} -> [k |-> "chain", op |-> t.op, items |-> ChainItems(t, t.op)]
      [] t.k = "bin" -> [k |-> "bin", op |-> t.op, l |-> Canon(t.l), r |-> Canon(t.r)]
      [] t.k = "num" /\ t.n \in NegNums -> [k |-> "neg", a |-> [k |-> "num", n |-> AbsNum(t.n)]]
      \* (a double negation is the expression itself: a renderer that drops NOT NOT keeps the grouping if it keeps the brackets)
      [] t.k = "not" -> IF t.a.k = "not" THEN Canon(t.a.a) ELSE [k |-> "not", a |-> Canon(t.a)]
      [] t.k \in {"neg", "isnull"} -> [k |-> t.k, a |-> Canon(t.a)]
      [] t.k = "in" -> [k |-> "in", a |-> Canon(t.a), items |-> CanonSeq(t.items)]
      [] t.k = "between" -> [k |-> "between", a |-> Canon(t.a), lo |-> Canon(t.lo), hi |-> Canon(t.hi)]
      [] t.k = "call" -> [k |-> "call", f |-> t.f, args |-> CanonSeq(t.args)]
      [] t.k = "case" -> [k |-> "case", w |-> Canon(t.w), t |-> Canon(t.t), e |-> Canon(t.e)]
      [] OTHER -> t

(***************************************************************************)
(* Intended renderer                                                        *)
(***************************************************************************)
P(v) == [t |-> "punct", v |-> v]
W(v) == [t |-> "word", v |-> v]

IsAtom(t) == t.k \in {"fld", "num", "str", "null", "call", "case"} /\ ~(t.k = "num" /\ t.n \in NegNums)

\* the text of t begins with a '-' token (a unary minus, a negative numeral, or
\* a compound whose leftmost operand does): after a binary '-' it would fuse
\* into the comment opener "--"
RECURSIVE LeadsWithMinus(_)
LeadsWithMinus(t) ==
    CASE t.k = "neg" -> TRUE
      [] t.k = "num" -> t.n \in NegNums
      [] t.k = "bin" -> LeadsWithMinus(t.l)
      [] t.k \in {"isnull", "in", "between"} -> LeadsWithMinus(t.a)
      [] OTHER -> FALSE
\* a division sits on the left spine of a multiplication chain: as the right
\* operand of '*' the chain would be re-associated around the division
\* (2*((a/2)*2) is not ((2*a)/2)*2 in integer arithmetic)
RECURSIVE LeftSpineHasDiv(_)
LeftSpineHasDiv(t) == t.k = "bin" /\ (t.op = "/" \/ (t.op = "*" /\ LeftSpineHasDiv(t.l)))

\* App. D: (i) weaker child; (ii) equal strength on the right of - or /, a / on
\* the right of *, or a non-associative parent; (iii) a unary minus or negative
\* numeral directly after a '-' ; (iv) non-atomic operand of unary minus.
NeedParens(parent, child, side) ==
    LET p == OpOf(parent)  c == OpOf(child)
        cb == IF c \in {"negnum"} THEN BP("NEG") ELSE BP(c)
    IN  CASE p = "NEG" -> ~IsAtom(child)
          [] p \in {"call", "case"} -> FALSE
          [] p = "IN" /\ side = "I" -> FALSE
          [] p \in {"IN", "ISNULL"} -> cb <= 5
          [] p = "BETWEEN" /\ side = "A" -> cb <= 5
          [] p = "BETWEEN" -> cb < 6
          [] p = "NOT" -> cb < 5
          [] p \in CmpOps -> cb <= 5
          [] p \in BoolOps -> cb < BP(p)
          [] p \in {"+", "-"} ->
                 \/ cb < 6
                 \/ (cb = 6 /\ side = "R" /\ p = "-")
                 \/ (side = "R" /\ p = "-" /\ LeadsWithMinus(child))
          [] p \in {"*", "/"} ->
                 \/ cb < 7
                 \/ (cb = 7 /\ side = "R" /\ (p = "/" \/ LeftSpineHasDiv(child)))
          [] OTHER -> FALSE

\* the edges of a tree at which the intended design needs a bracket: the only
\* places where an un-bracketed rendering can regroup (used as the signature
\* alternatives of a failing tree)
\* An edge is named with the operator ABOVE its parent ("" at the root): what a renderer does at an edge may depend on what
\* encloses it (the sub-criterion request of an enclosing NOT, for one), so a failure inside NOT is not the same finding as a
\* failure of the same parent / child pair elsewhere.
RECURSIVE NeedEdgesIn(_, _)
NeedEdgesIn(t, up) == UNION { (IF NeedParens(t, kd[2], kd[1]) THEN {<<OpOf(t), OpOf(kd[2]), kd[1], up>>} ELSE {})
                              \cup NeedEdgesIn(kd[2], OpOf(t)) : kd \in Kids(t) }
NeedEdges(t) == NeedEdgesIn(t, "")

RECURSIVE Render(_), RenderKid(_, _, _), RenderList(_, _)

RenderKid(parent, child, side) ==
    IF NeedParens(parent, child, side) THEN <<P("(")>> \o Render(child) \o <<P(")")>>
    ELSE Render(child)

RenderList(parent, s) ==
    IF s = <<>> THEN <<>>
    ELSE Render(Head(s)) \o (IF Len(s) > 1 THEN <<P(",")>> ELSE <<>>) \o RenderList(parent, Tail(s))

Render(t) ==
    CASE t.k = "fld" -> << [t |-> "id", v |-> t.n] >>
      [] t.k = "num" -> IF t.n \in NegNums THEN << P("-"), [t |-> "num", v |-> AbsNum(t.n)] >>
                                            ELSE << [t |-> "num", v |-> t.n] >>
      [] t.k = "str" -> << [t |-> "str", v |-> t.n] >>
      [] t.k = "null" -> << W("NULL") >>
      [] t.k = "bin" -> RenderKid(t, t.l, "L")
                        \o << IF t.op \in BoolOps THEN W(t.op) ELSE P(t.op) >>
                        \o RenderKid(t, t.r, "R")
      [] t.k = "neg" -> << P("-") >> \o RenderKid(t, t.a, "A")
      [] t.k = "not" -> << W("NOT") >> \o RenderKid(t, t.a, "A")
      [] t.k = "isnull" -> RenderKid(t, t.a, "A") \o << W("IS"), W("NULL") >>
      [] t.k = "in" -> RenderKid(t, t.a, "A") \o << W("IN"), P("(") >> \o RenderList(t, t.items) \o << P(")") >>
      [] t.k = "between" -> RenderKid(t, t.a, "A") \o << W("BETWEEN") >> \o RenderKid(t, t.lo, "LO")
                            \o << W("AND") >> \o RenderKid(t, t.hi, "HI")
      [] t.k = "call" -> << W(t.f), P("(") >> \o RenderList(t, t.args) \o << P(")") >>
      [] t.k = "case" -> << W("CASE"), W("WHEN") >> \o Render(t.w) \o << W("THEN") >> \o Render(t.t)
                         \o << W("ELSE") >> \o Render(t.e) \o << W("END") >>
      [] OTHER -> << [t |-> "err", v |-> "?"] >>

(***************************************************************************)
(* Pratt parser.  Results are [ok, t, p]: tree and position of next token.  *)
(***************************************************************************)
ErrT == [k |-> "err"]
Fail == [ok |-> FALSE, t |-> ErrT, p |-> 0]
Ok(t, p) == [ok |-> TRUE, t |-> t, p |-> p]

Keywords == {"AND", "OR", "XOR", "NOT", "IN", "BETWEEN", "IS", "NULL", "CASE", "WHEN", "THEN",
             "ELSE", "END", "LIKE", "ILIKE", "AS"}

TokIs(toks, p, ty, v) == p <= Len(toks) /\ toks[p].t = ty /\ toks[p].v = v
TokTy(toks, p, ty) == p <= Len(toks) /\ toks[p].t = ty

RECURSIVE ParseE(_, _, _), ParseInfix(_, _, _, _, _), ParsePrefix(_, _), ParseArgs(_, _, _)

\* comma separated expressions up to ")" ; p is at the first item or at ")"
ParseArgs(toks, p, acc) ==
    IF TokIs(toks, p, "punct", ")") THEN [ok |-> TRUE, t |-> acc, p |-> p + 1]
    ELSE LET e == ParseE(toks, p, 0) IN
         IF ~e.ok THEN Fail
         ELSE IF TokIs(toks, e.p, "punct", ",") THEN ParseArgs(toks, e.p + 1, Append(acc, e.t))
         ELSE IF TokIs(toks, e.p, "punct", ")") THEN [ok |-> TRUE, t |-> Append(acc, e.t), p |-> e.p + 1]
         ELSE Fail

ParsePrefix(toks, p) ==
    IF p > Len(toks) THEN Fail
    ELSE LET tk == toks[p] IN
    CASE tk.t = "punct" /\ tk.v = "(" ->
            LET e == ParseE(toks, p + 1, 0) IN
            IF e.ok /\ TokIs(toks, e.p, "punct", ")") THEN Ok(e.t, e.p + 1) ELSE Fail
      [] tk.t = "punct" /\ tk.v = "-" ->
            LET e == ParseE(toks, p + 1, 8) IN
            IF e.ok THEN Ok([k |-> "neg", a |-> e.t], e.p) ELSE Fail
      [] tk.t = "word" /\ tk.v = "NOT" ->
            LET e == ParseE(toks, p + 1, 5) IN
            IF e.ok THEN Ok([k |-> "not", a |-> e.t], e.p) ELSE Fail
      [] tk.t = "word" /\ tk.v = "NULL" -> Ok([k |-> "null"], p + 1)
      [] tk.t = "word" /\ tk.v = "CASE" ->
            IF ~TokIs(toks, p + 1, "word", "WHEN") THEN Fail ELSE
            LET w == ParseE(toks, p + 2, 0) IN
            IF ~(w.ok /\ TokIs(toks, w.p, "word", "THEN")) THEN Fail ELSE
            LET th == ParseE(toks, w.p + 1, 0) IN
            IF ~(th.ok /\ TokIs(toks, th.p, "word", "ELSE")) THEN Fail ELSE
            LET el == ParseE(toks, th.p + 1, 0) IN
            IF ~(el.ok /\ TokIs(toks, el.p, "word", "END")) THEN Fail
            ELSE Ok([k |-> "case", w |-> w.t, t |-> th.t, e |-> el.t], el.p + 1)
      [] tk.t = "word" /\ tk.v \notin Keywords ->
            IF TokIs(toks, p + 1, "punct", "(") THEN
                LET a == ParseArgs(toks, p + 2, <<>>) IN
                IF a.ok THEN Ok([k |-> "call", f |-> tk.v, args |-> a.t], a.p) ELSE Fail
            ELSE Fail
      [] tk.t = "id" ->
            IF TokIs(toks, p + 1, "punct", ".") /\ TokTy(toks, p + 2, "id")
            THEN Ok([k |-> "fld", n |-> toks[p + 2].v, q |-> tk.v], p + 3)
            ELSE Ok([k |-> "fld", n |-> tk.v], p + 1)
      [] tk.t = "num" -> Ok([k |-> "num", n |-> tk.v], p + 1)
      [] tk.t = "str" -> Ok([k |-> "str", n |-> tk.v], p + 1)
      [] tk.t = "ph" -> Ok([k |-> "ph", n |-> tk.v], p + 1)
      [] OTHER -> Fail

\* left : tree parsed so far; cmpSeen : a comparison-level operator was already
\* consumed at this level (comparisons are non-associative in standard SQL)
ParseInfix(toks, left, p, minbp, cmpSeen) ==
    IF p > Len(toks) THEN Ok(left, p)
    ELSE LET tk == toks[p] IN
    CASE tk.t = "punct" /\ tk.v \in ArithOps /\ BP(tk.v) >= minbp ->
            LET r == ParseE(toks, p + 1, BP(tk.v) + 1) IN
            IF r.ok THEN ParseInfix(toks, [k |-> "bin", op |-> tk.v, l |-> left, r |-> r.t], r.p, minbp, FALSE)
            ELSE Fail
      [] tk.t = "punct" /\ tk.v \in CmpOps /\ 5 >= minbp ->
            IF cmpSeen THEN Fail ELSE
            LET r == ParseE(toks, p + 1, 6) IN
            IF r.ok THEN ParseInfix(toks, [k |-> "bin", op |-> tk.v, l |-> left, r |-> r.t], r.p, minbp, TRUE)
            ELSE Fail
      [] tk.t = "word" /\ tk.v \in BoolOps /\ BP(tk.v) >= minbp ->
            LET r == ParseE(toks, p + 1, BP(tk.v) + 1) IN
            IF r.ok THEN ParseInfix(toks, [k |-> "bin", op |-> tk.v, l |-> left, r |-> r.t], r.p, minbp, FALSE)
            ELSE Fail
      [] tk.t = "word" /\ tk.v = "IS" /\ 5 >= minbp ->
            IF cmpSeen THEN Fail ELSE
            IF TokIs(toks, p + 1, "word", "NULL")
            THEN ParseInfix(toks, [k |-> "isnull", a |-> left], p + 2, minbp, TRUE)
            ELSE IF TokIs(toks, p + 1, "word", "NOT") /\ TokIs(toks, p + 2, "word", "NULL")
            THEN ParseInfix(toks, [k |-> "not", a |-> [k |-> "isnull", a |-> left]], p + 3, minbp, TRUE)
            ELSE Fail
      [] tk.t = "word" /\ tk.v = "IN" /\ 5 >= minbp ->
            IF cmpSeen \/ ~TokIs(toks, p + 1, "punct", "(") THEN Fail ELSE
            LET a == ParseArgs(toks, p + 2, <<>>) IN
            IF a.ok THEN ParseInfix(toks, [k |-> "in", a |-> left, items |-> a.t], a.p, minbp, TRUE) ELSE Fail
      [] tk.t = "word" /\ tk.v = "BETWEEN" /\ 5 >= minbp ->
            IF cmpSeen THEN Fail ELSE
            LET lo == ParseE(toks, p + 1, 6) IN
            IF ~(lo.ok /\ TokIs(toks, lo.p, "word", "AND")) THEN Fail ELSE
            LET hi == ParseE(toks, lo.p + 1, 6) IN
            IF hi.ok THEN ParseInfix(toks, [k |-> "between", a |-> left, lo |-> lo.t, hi |-> hi.t], hi.p, minbp, TRUE)
            ELSE Fail
      [] OTHER -> Ok(left, p)

ParseE(toks, p, minbp) ==
    LET pre == ParsePrefix(toks, p) IN
    IF pre.ok THEN ParseInfix(toks, pre.t, pre.p, minbp, FALSE) ELSE Fail

\* whole-input parse: a comment token ends the statement text (that is what an
\* SQL lexer does with "--"), an err token is a lexical error
StripComment(toks) ==
    LET idx == {i \in DOMAIN toks : toks[i].t = "comment"} IN
    IF idx = {} THEN toks
    ELSE SubSeq(toks, 1, (CHOOSE i \in idx : \A j \in idx : i <= j) - 1)

Parse(toks) ==
    LET ts == StripComment(toks)
        r == ParseE(ts, 1, 0) IN
    IF r.ok /\ r.p = Len(ts) + 1 THEN r.t ELSE ErrT

HasComment(toks) == \E i \in DOMAIN toks : toks[i].t \in {"comment", "err"}

ParseBackOK(tree, toks) == ~HasComment(toks) /\ Canon(Parse(toks)) = Canon(tree)

=============================================================================
