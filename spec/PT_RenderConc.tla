--------------------------- MODULE PT_RenderConc ---------------------------
(***************************************************************************)
(* Property C02 on the model: k renderer threads over ONE shared object.    *)
(* A render is a sequence of micro-steps over the object's attributes, in   *)
(* the order the renderer visits them (Visit).  An attribute in WriteSet is *)
(* appended to just before it is read (this is what the PostgreSQL/SQLite   *)
(* UPDATE...JOIN renderer did to _from); every other step is a pure read.   *)
(* Each thread accumulates what it has read; a completed render must equal  *)
(* the sequential result on the initial heap.                               *)
(*                                                                          *)
(* WriteSet is MEASURED by the harness (attributes whose structural digest  *)
(* changes across a render).  With the empty footprint TLC proves the       *)
(* invariant for every interleaving; with a non-empty one it returns the    *)
(* schedule that breaks it, which is how a recorded impurity is shown to    *)
(* be a violation of the "from several threads" clause as well.             *)
(***************************************************************************)
EXTENDS Naturals, Sequences, FiniteSets, TLC
CONSTANTS Threads, Visit, WriteSet, Renders   \* Renders: renders per thread
VARIABLES heap,   \* [attr -> Nat]   abstract content (number of appended items)
          pc,     \* [thread -> position in Visit of the current render, 0 = idle]
          acc,    \* [thread -> values read so far in the current render]
          left,   \* [thread -> renders still to do]
          outs    \* [thread -> Seq of completed results]
vars == <<heap, pc, acc, left, outs>>
Attrs == {Visit[i] : i \in DOMAIN Visit}
Init == /\ heap = [a \in Attrs |-> 0]
        /\ pc = [t \in Threads |-> 0]
        /\ acc = [t \in Threads |-> <<>>]
        /\ left = [t \in Threads |-> Renders]
        /\ outs = [t \in Threads |-> <<>>]
Start(t) == /\ pc[t] = 0 /\ left[t] > 0
            /\ pc' = [pc EXCEPT ![t] = 1]
            /\ acc' = [acc EXCEPT ![t] = <<>>]
            /\ left' = [left EXCEPT ![t] = @ - 1]
            /\ UNCHANGED <<heap, outs>>
Step(t) == /\ pc[t] > 0
           /\ LET a == Visit[pc[t]]
                  h2 == IF a \in WriteSet THEN [heap EXCEPT ![a] = @ + 1] ELSE heap
              IN /\ heap' = h2
                 /\ IF pc[t] = Len(Visit)
                    THEN /\ outs' = [outs EXCEPT ![t] = Append(@, Append(acc[t], h2[a]))]
                         /\ pc' = [pc EXCEPT ![t] = 0]
                         /\ acc' = [acc EXCEPT ![t] = <<>>]
                    ELSE /\ acc' = [acc EXCEPT ![t] = Append(@, h2[a])]
                         /\ pc' = [pc EXCEPT ![t] = @ + 1]
                         /\ outs' = outs
           /\ UNCHANGED left
Next == \E t \in Threads : Start(t) \/ Step(t)
Spec == Init /\ [][Next]_vars
\* the sequential result of ONE render on the initial heap
SeqResult == [i \in DOMAIN Visit |-> IF Visit[i] \in WriteSet THEN 1 ELSE 0]
Repeatable == \A t \in Threads : \A i \in DOMAIN outs[t] : outs[t][i] = SeqResult
Pure == [][\A a \in Attrs : heap'[a] = heap[a]]_vars
=============================================================================
