"""C05 - inlined values are single literal tokens that decode to the value.

spec:  PT_Lex (reference lexer per dialect, intended encoders, LitRoundTrip/Embeds), MC_Lex (design check)
judge: J_Lit  (TLC lexes the real statement text and relates it to the benign rendering)
"""
from __future__ import annotations

import datetime
import decimal
import enum
import itertools
import json
import random
import uuid

from harness import core, lexer, lit, tlc

MARK = "zqz"
ALPHABET = ["a", "1", " ", "'", '"', "`", "\\", "-", "/", "*", "%", "?", "$", ";", "\n", "\0", "é", "{", "}"]
CLASS = {"'": "squote", '"': "dquote", "`": "backtick", "\\": "backslash", "-": "dash", "/": "slash", "*": "star",
         "%": "percent", "?": "qmark", "$": "dollar", ";": "semicolon", "\n": "newline", "\0": "nul", " ": "space", "{": "brace", "}": "brace"}


def positions():
    """name -> function(Q, v) -> statement text under Q's dialect; Q is the dialect's Query class"""
    from pypika_tortoise import Case, Column, Table
    from pypika_tortoise import functions as fn

    t = Table("t")

    def sel(Q, v):
        b = Q.from_(t)
        # a bare str in select() names a column; a constant string is selected through the dialect's wrapper class
        return str(b.select(core.wrapper_cls(b)(v) if isinstance(v, str) else v))
    def where(Q, v): return str(Q.from_(t).select(t.a).where(t.a == v))
    def where_ne(Q, v): return str(Q.from_(t).select(t.a).where(t.b != v))
    def isin(Q, v): return str(Q.from_(t).select(t.a).where(t.a.isin([v, "k"])))
    def insert(Q, v): return str(Q.into(t).insert(1, v))
    def insert_cols(Q, v): return str(Q.into(t).columns("a", "b").insert(v, 2).insert(3, v))
    def set_(Q, v): return str(Q.update(t).set(t.a, v))
    def set_where(Q, v): return str(Q.update(t).set(t.a, 1).where(t.b == v))
    def func(Q, v): return str(Q.from_(t).select(fn.Coalesce(t.a, v)))
    def case_then(Q, v): return str(Q.from_(t).select(Case().when(t.a == 1, v).else_("k")))
    def case_else(Q, v): return str(Q.from_(t).select(Case().when(t.a == 1, "k").else_(v)))
    def case_when(Q, v): return str(Q.from_(t).select(Case().when(t.a == v, 1).else_(2)))
    def default(Q, v): return Q.create_table("t").columns(Column("a", "VARCHAR(9)", default=v)).get_sql(Q.SQL_CONTEXT)
    def upsert(Q, v): return str(Q.into(t).insert(1, 2).on_conflict("a").do_update("b", v))
    def between(Q, v): return str(Q.from_(t).select(t.a).where(t.a.between(v, "k")))
    def having(Q, v): return str(Q.from_(t).select(t.a).groupby(t.a).having(fn.Max(t.b) == v))
    def like(Q, v): return str(Q.from_(t).select(t.a).where(t.a.like(v)))
    def join_on(Q, v): return str(Q.from_(t).join(Table("u")).on((t.a == Table("u").a) & (t.b == v)).select(t.a))
    def subq(Q, v): return str(Q.from_(t).select(t.a).where(t.a.isin(Q.from_(Table("u")).select(Table("u").a).where(Table("u").b == v))))
    def setop(Q, v): return str(Q.from_(t).select(t.a).where(t.a == v).union(Q.from_(Table("u")).select(Table("u").a)))
    def delete(Q, v): return str(Q.from_(t).delete().where(t.a == v))
    def arith(Q, v): return str(Q.from_(t).select(t.a).where(fn.Concat(t.a, v) == "k"))
    # arguments of analytic / aggregate functions with OVER / FILTER clauses, of CAST, of a custom function
    def analytic_arg(Q, v):
        from pypika_tortoise.terms import AnalyticFunction
        return str(Q.from_(t).select(AnalyticFunction("LAG", t.a, 1, v).over(t.b).orderby(t.c)))
    def analytic_partition(Q, v):
        from pypika_tortoise import analytics as an
        return str(Q.from_(t).select(an.Sum(t.a).over(fn.Coalesce(t.b, v)).orderby(t.c)))
    def agg_filter(Q, v): return str(Q.from_(t).select(fn.Sum(t.a).filter(t.b == v)))
    def agg_arg_filter(Q, v): return str(Q.from_(t).select(fn.Max(fn.Coalesce(t.a, v)).filter(t.b == 1)))
    def custom_function(Q, v):
        from pypika_tortoise import CustomFunction
        return str(Q.from_(t).select(CustomFunction("F3", ["p", "q", "r"])(t.a, v, 2)))
    def orderby_value(Q, v): return str(Q.from_(t).select(t.a).orderby(fn.Coalesce(t.b, v)))
    def groupby_value(Q, v): return str(Q.from_(t).select(fn.Count("*")).groupby(fn.Coalesce(t.b, v)))
    # JSON operators: a dict / list operand becomes a JSON term (its own serialiser), a string a plain constant
    def json_contains(Q, v): return str(Q.from_(t).select(t.a).where(t.j.contains(v)))
    def json_contained_by(Q, v): return str(Q.from_(t).select(t.a).where(t.j.contained_by(v)))
    def json_has_key(Q, v): return str(Q.from_(t).select(t.a).where(t.j.has_key(v)))
    def json_path(Q, v): return str(Q.from_(t).select(t.j.get_path_text_value(v)))
    def json_term(Q, v):
        from pypika_tortoise.terms import JSON
        return str(Q.from_(t).select(t.a).where(t.j == (JSON(v) if isinstance(v, (dict, list)) else v)))
    # the file name of MySQL's LOAD DATA: a str inlined as a string literal by the load builder's own template
    def load_file(Q, v): return str(Q.load(v).into("t"))

    return {f.__name__.rstrip("_"): f for f in (sel, where, where_ne, isin, insert, insert_cols, set_, set_where, func,
                                                  case_then, case_else, case_when, default, upsert, between, having,
                                                  like, join_on, subq, setop, delete, arith,
                                                  json_contains, json_contained_by, json_has_key, json_path, json_term,
                                                  analytic_arg, analytic_partition, agg_filter, agg_arg_filter, custom_function, orderby_value, groupby_value, load_file)}


# positions whose operand is a document or a string only
ONLY_KINDS = {"json_contains": {"json", "jsonlist", "str"}, "json_contained_by": {"json", "jsonlist", "str"}, "json_has_key": {"str"}, "json_path": {"str"},
              "json_term": {"json", "jsonlist", "str"}, "load_file": {"str"}}
# positions that exist under some dialects only
ONLY_DIALECTS = {"load_file": {"mysql"}}


def shared_positions():
    """name -> (build(v) -> term / criterion built ONCE, embed(Q, term) -> statement text): the cross-dialect pass renders the same
    value-bearing object under two dialects in a row"""
    from pypika_tortoise import Case, Table
    from pypika_tortoise import functions as fn
    from pypika_tortoise.terms import JSON, ValueWrapper

    t = Table("t")

    def where(Q, c): return str(Q.from_(t).select(t.a).where(c))
    def select(Q, c): return str(Q.from_(t).select(c))
    def upsert(Q, c): return str(Q.into(t).insert(1, 2).on_conflict("a").do_update("b", c))
    def insert(Q, c): return str(Q.into(t).insert(1, c))
    return {
        "where": (lambda v: t.a == v, where), "isin": (lambda v: t.a.isin([v, "k"]), where), "between": (lambda v: t.a.between(v, "k"), where),
        "like": (lambda v: t.a.like(v), where), "func": (lambda v: fn.Coalesce(t.a, v), select),
        "case_then": (lambda v: Case().when(t.a == 1, v).else_("k"), select), "arith": (lambda v: fn.Concat(t.a, v) == "k", where),
        "wrapper_select": (lambda v: ValueWrapper(v), select), "wrapper_insert": (lambda v: ValueWrapper(v), insert), "wrapper_upsert": (lambda v: ValueWrapper(v), upsert),
        "json_contains": (lambda v: t.j.contains(v), where), "json_term": (lambda v: t.j == (JSON(v) if isinstance(v, (dict, list)) else v), where),
    }


class Color(enum.Enum):
    red = "re'd"


class StrE(str, enum.Enum):
    x = "x\\y'z"


class StrPlain(str, enum.Enum):
    member = "plainvalue"


class IntE(enum.Enum):
    seven = 7


class IntMix(int, enum.Enum):      # members ARE ints (isinstance(m, int)): a number fast path must not bypass the Enum branch
    high = 3


class FloatMix(float, enum.Enum):
    half = 0.5


class IntEnumE(enum.IntEnum):
    ten = 10


class FlagE(enum.IntFlag):
    a = 1
    b = 2


def scalar_cases(rnd):
    """(label, value, alternatives builder) for the non-string kinds; the decode of numerics is done here in
    Python on the token text found by the lexer, TLC checks the token structure"""
    return [
        ("int", 5), ("int", 0), ("negint", -7), ("bigint", 2 ** 40 + 1), ("float", 1.5), ("float", 1e-07), ("float", 1e16),
        ("negfloat", -2.25), ("decimal", decimal.Decimal("10.50")), ("bool", True), ("bool", False), ("none", None),
        ("date", datetime.date(2020, 2, 29)), ("time", datetime.time(1, 2, 3)), ("datetime", datetime.datetime(2020, 1, 2, 3, 4, 5, 6)),
        ("datetimetz", datetime.datetime(2020, 1, 2, 3, 4, 5, tzinfo=datetime.timezone.utc)),
        ("uuid", uuid.UUID("12345678-1234-5678-1234-567812345678")), ("enum", Color.red), ("strenum", StrE.x), ("strenum", StrPlain.member), ("intenum", IntE.seven),
        ("intenum", IntMix.high), ("intenum", FloatMix.half), ("intenum", IntEnumE.ten), ("intenum", FlagE.a | FlagE.b),
        ("json", {"a": [1, "q'r", 'd"e'], "b\\": None}), ("json", {"k": "plain", "n": [1, 2.5, True, None]}),
        ("json", {"k": "plain"}), ("jsonlist", ["x", "y"]), ("json", {"author": "O'Brien"}), ("json", {"t": True}), ("json", {"n": None}),
        ("json", {"q": 'say "hi"'}), ("json", {"p": "C:\\dir"}), ("jsonlist", [1, {"deep": ["é", 2.5]}]),
    ]


def expected_alts(kind, v, d, actual_toks=None):
    sq = [39, 34] if d == "mysql" else [39]
    if kind in ("str",):
        return [lit.str_alt(v, sq)]
    if kind in ("date", "time", "datetime", "datetimetz"):
        return [lit.str_alt(v.isoformat(), sq)] + ([lit.str_alt(v.isoformat(" "), sq)] if kind.startswith("datetime") else [])
    if kind == "uuid":
        return [lit.str_alt(str(v), sq)]
    if kind in ("enum", "strenum"):
        return [lit.str_alt(v.value, sq)]
    if kind == "none":
        return [lit.tok_alt(("word", "NULL"))]
    if kind == "bool":
        w = lit.tok_alt(("word", "TRUE" if v else "FALSE"))
        n = lit.tok_alt(("num", "1" if v else "0"))
        return [n, w] if d == "sqlite" else [w, n] if d == "generic" else [w]
    if kind == "json":
        # any single string literal whose payload is JSON text for v
        return None
    # numerics: [sign] num
    txt = None
    if actual_toks:
        txt = actual_toks
    return None


def numeric_alt(v, span):
    """span: python-lexed tokens that replaced the marker; returns the alternative TLC must see"""
    if isinstance(v, enum.Enum):
        v = v.value
    neg = v < 0
    want = ([("punct", "-")] if neg else []) + [("num", repr(abs(v)) if not isinstance(v, decimal.Decimal) else str(abs(v)))]
    toks = [(t["t"], t["v"]) for t in span]
    body = toks[1:] if toks[:1] == [("punct", "-")] else toks
    if len(body) == 1 and body[0][0] == "num" and (toks[:1] == [("punct", "-")]) == neg:
        try:
            if decimal.Decimal(body[0][1]) == (abs(v) if isinstance(v, decimal.Decimal) else decimal.Decimal(repr(abs(v)))):
                want = toks
        except decimal.InvalidOperation:
            pass
    return lit.tok_alt(*want)


def json_alt(v, span, d):
    sq = [39, 34] if d == "mysql" else [39]
    if len(span) == 1 and span[0]["t"] == "str":
        try:
            if json.loads(span[0]["v"]) == v:
                return lit.str_alt(span[0]["v"], sq)
        except Exception:
            pass
    return lit.str_alt(json.dumps(v), sq)


def marker_span(toks, btoks):
    """tokens of `toks` standing where the first marker of `btoks` stands (common prefix / suffix removed)"""
    j = next(i for i, t in enumerate(btoks) if t["t"] == "str" and t["v"] == MARK)
    suf = len(btoks) - j - 1
    return toks[j:len(toks) - suf]


def sqlite_roundtrip(text, v):
    """SQLite executes SELECT <literal> FROM t (the statement of the `sel` position): the engine must hand back the value"""
    import sqlite3

    con = sqlite3.connect(":memory:")
    try:
        con.execute('CREATE TABLE "t" (a)')
        con.execute('INSERT INTO "t" VALUES (1)')
        row = con.execute(text).fetchone()
        return row is not None and row[0] == v, repr(row)
    except sqlite3.Error as ex:
        return False, "engine error: " + str(ex)
    finally:
        con.close()


def char_classes(s):
    return sorted({CLASS.get(c, "nonascii" if ord(c) > 127 else "plain") for c in s} - {"plain"}) or ["plain"]


# API conventions that make a position not a value position for that kind (None = "no default" / "use EXCLUDED")
NOT_A_VALUE = {("default", "none"), ("upsert", "none")}


def run(tier: str) -> int:
    rep = core.Report("C05", tier)
    rnd = random.Random(core.seed())
    maxlen = 2 if tier == "quick" else 3
    # 1. design: intended encoders round-trip through the reference lexer
    r = tlc.run("MC_Lex", f"CONSTANT MaxLen = {maxlen if tier == 'quick' else 3}\nINIT Init\nNEXT Next\nINVARIANT Lit\nINVARIANT Ident\nINVARIANT Emb\nINVARIANT EmbI\n",
                workers=16, heap="8g", timeout=3000)
    rep.add_tlc(r)
    if r.violation or not r.ok:
        raise core.MachineryError(f"intended encoders do not round-trip (spec bug): {r.violation}\n{r.raw_tail[-1200:]}")
    # 2. real statements
    pos = positions()
    qcls = core.query_classes()
    strings = [""] + ["".join(p) for n in range(1, maxlen + 1) for p in itertools.product(ALPHABET, repeat=n)]
    if tier == "quick":
        # length 3 only around the characters that matter for escaping
        hot = ["'", "\\", '"', "a"]
        strings += ["{partition_sql}", "{}", "{0}", "{function}", "%(x)s", "{'a': 1}", "{{x}}", "}{"]
        strings += ["".join(p) for p in itertools.product(hot, repeat=3)]
    uni = [chr(rnd.choice([rnd.randint(1, 0x7f), rnd.randint(0x80, 0x7ff), rnd.randint(0x800, 0xd7ff), rnd.randint(0x10000, 0x10ffff)]))
           for _ in range(400)]
    for _ in range(150 if tier == "quick" else 3000):
        strings.append("".join(rnd.choice(uni + ALPHABET) for _ in range(rnd.randint(1, 12))))
    strings = list(dict.fromkeys(strings))
    events, meta = [], []
    engine_checked = [0]
    for d, Q in qcls.items():
        for pname, f in pos.items():
            if pname in ONLY_DIALECTS and d not in ONLY_DIALECTS[pname]:
                continue
            try:
                btext = f(Q, MARK)
            except Exception as ex:
                raise core.MachineryError(f"benign statement failed at {pname}/{d}: {ex!r}")
            ld = core.lex_dialect(d)
            btoks = lexer.lex(btext, ld)
            if not any(t["t"] == "str" and t["v"] == MARK for t in btoks):
                raise core.MachineryError(f"marker not found in benign statement {pname}/{d}: {btext}")
            cases = [("str", s) for s in strings] + scalar_cases(rnd)
            for kind, v in cases:
                if (pname, kind) in NOT_A_VALUE or (pname in ONLY_KINDS and kind not in ONLY_KINDS[pname]):
                    continue
                if pname == "load_file" and v == "":
                    continue  # (an empty file name is "no file yet" to the load builder: no statement is rendered, nothing is inlined)
                listdoc = kind == "jsonlist"
                if listdoc:
                    if pname == "insert_cols":
                        continue  # (a list as the FIRST argument of insert() is a row by contract)
                    kind = "json"
                try:
                    text = f(Q, v)
                except Exception as ex:
                    rep.discrepancy([[d, pname, kind, "raises:" + type(ex).__name__]], {"dialect": d, "position": pname, "value": repr(v)},
                                    what="building/rendering a supported value raises")
                    continue
                alts = expected_alts(kind, v, ld)
                if alts is None:
                    span = marker_span(lexer.lex(text, ld), btoks)
                    alts = [json_alt(v, span, ld)] if kind == "json" else [numeric_alt(v, span)]
                ev = lit.make_event(len(events), d, text, btext, "str", MARK, alts, sample_lex=(len(events) % 97 == 0))
                events.append(ev)
                meta.append((d, pname, "jsonlist" if listdoc else kind, v, text))
                if d == "sqlite" and pname == "sel" and kind == "str" and "\0" not in v:
                    # (a NUL inside a literal ends the statement text for the C API; that is the driver's limit, not the renderer's)
                    engine_checked[0] += 1
                    ok, got = sqlite_roundtrip(text, v)
                    if not ok:
                        rep.discrepancy([[d, pname, "engine", c] for c in char_classes(v)], {"dialect": d, "position": pname, "value": repr(v), "text": text, "engine": got},
                                        what="SQLite does not return the original value for the inlined literal")
    # second pass: one value-bearing object, two dialects in a row (a literal form remembered from the first rendering must not
    # reach the second)
    sp = shared_positions()
    hot_values = [("str", x) for x in ["a\\b", "it's", 'q"r', "\\", "x\\'y", "%s ?", "C:\\new\\table", "é\n"]] + \
                 [c for c in scalar_cases(rnd) if c[0] in ("json", "jsonlist", "strenum", "enum", "date", "datetime", "uuid", "bool")]
    for d1, d2 in (("generic", "mysql"), ("mysql", "postgresql"), ("postgresql", "mysql"), ("mysql", "sqlite"), ("sqlite", "postgresql")):
        Q1, Q2 = qcls[d1], qcls[d2]
        ld = core.lex_dialect(d2)
        for pname, (mk, emb) in sp.items():
            btext = emb(Q2, mk(MARK))
            btoks = lexer.lex(btext, ld)
            if not any(t["t"] == "str" and t["v"] == MARK for t in btoks):
                raise core.MachineryError(f"marker not found in benign statement shared:{pname}/{d2}: {btext}")
            for kind, v in hot_values:
                if pname.startswith("json_") and kind not in ("json", "jsonlist", "str"):
                    continue
                if kind == "jsonlist":
                    if not pname.startswith("json_"):
                        continue
                    kind = "json"
                try:
                    obj = mk(v)
                    emb(Q1, obj)
                    text = emb(Q2, obj)
                except Exception as ex:
                    rep.discrepancy([[d2, "shared:" + pname, kind, "raises:" + type(ex).__name__]], {"dialect": d2, "position": pname, "value": repr(v)},
                                    what="building/rendering a supported value raises")
                    continue
                alts = expected_alts(kind, v, ld)
                if alts is None:
                    span = marker_span(lexer.lex(text, ld), btoks)
                    alts = [json_alt(v, span, ld)] if kind == "json" else [numeric_alt(v, span)]
                events.append(lit.make_event(len(events), d2, text, btext, "str", MARK, alts))
                meta.append((d2, "shared:" + pname + ":after-" + d1, kind, v, text))
    bad = lit.judge(events, rep)
    rep.traces = len(events)
    rep.evaluations = len(events)
    rep.distinct = {(m[1], m[2], repr(m[3])) for m in meta}
    def nclasses(t):
        v = meta[t][3]
        return len(char_classes(v)) if isinstance(v, str) else 9

    for tid in sorted(bad, key=lambda t: (nclasses(t), len(meta[t][4]))):
        d, pname, kind, v, text = meta[tid]
        payload = v if kind == "str" else v.value if kind in ("enum", "strenum") else json.dumps(v) if kind in ("json", "jsonlist") else None
        if kind == "jsonlist" and pname not in ONLY_KINDS:
            # a Python list at this position is wrapped as an SQL array / tuple of values, not inlined as one JSON literal
            rep.discrepancy([[d, pname, "jsonlist", "rendered-as-array"]], {"dialect": d, "position": pname, "kind": kind, "value": repr(v), "text": text, "fault": bad[tid]["fault"]},
                            what="a list value is not one literal token decoding to the original")
            continue
        # alternatives: one signature per special character class present in the payload (learned from
        # single-class strings only, so a new class of failure at a known site is still new)
        classes = char_classes(payload) if payload is not None else ["-"]
        rep.discrepancy([[d, pname, kind, c] for c in classes],
                        {"dialect": d, "position": pname, "kind": kind, "value": repr(v), "text": text, "fault": bad[tid]["fault"]},
                        what="value is not one literal token decoding to the original")
    for k in (0, len(meta) // 3, 2 * len(meta) // 3, len(meta) - 1):
        d, pname, kind, v, text = meta[k]
        rep.sample({"dialect": d, "position": pname, "kind": kind, "value": repr(v), "text": text, "verdict": "ok" if k not in bad else bad[k]["fault"]})
    rep.rule = (f"every string over a {len(ALPHABET)}-class adversarial alphabet up to length {maxlen} (+ hot triples, seeded Unicode strings) "
                f"and {len(scalar_cases(rnd))} non-string values, at {len(pos)} value positions x 6 dialects; TLC lexes the real text "
                "(PT_Lex!Lex) and requires the benign token list with the marker replaced by one literal decoding to the value; "
                "distinct = (position, kind, value); second pass: one value-bearing term rendered under two dialects in a row (5 ordered pairs x 12 positions x hot values)")
    rep.exhaustive = True
    rep.extra["positions"] = sorted(pos)
    rep.extra["sqlite_literal_roundtrips"] = engine_checked[0]
    rep.assumptions = ["numeric and JSON payload equality is decided in Python on the token the TLA+ lexer structure check accepts",
                       "non-SQLite literal grammars are those written in PT_Lex (no other engines in the sandbox)"]
    return rep.finish()


def replay(path: str) -> int:
    ex = json.load(open(path))["example"]
    print(json.dumps(ex, indent=1))
    if ex["position"].startswith("shared:"):
        return 0
    f = positions()[ex["position"]]
    Q = core.query_classes()[ex["dialect"]]
    try:
        v = eval(ex["value"], {"datetime": datetime, "decimal": decimal, "Decimal": decimal.Decimal, "uuid": uuid, "UUID": uuid.UUID, "Color": Color, "StrE": StrE, "StrPlain": StrPlain, "IntE": IntE})
        print("now renders:", f(Q, v))
    except Exception as e:  # noqa
        print("cannot rebuild value:", e)
    return 0
