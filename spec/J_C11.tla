-------------------------------- MODULE J_C11 --------------------------------
(* Judge for C11 (and C12): folds the logged calls through PT_Builder and    *)
(* compares the qualifier projection <<clause, qualifier, column>> (and the *)
(* alias projection <<clause, alias>>) of the REAL token stream with        *)
(* QualSeq / AliasSeq.                                                      *)
EXTENDS PT_Builder, Json, IOUtils
Events == ndJsonDeserialize(IOEnv.TRACE_FILE)
VARIABLE i
Init == i = 1
Fault(w, g) == IF w[2] = g[2] THEN "other" ELSE IF g[2] = "" THEN "missing" ELSE IF w[2] = "" THEN "spurious" ELSE "wrong-name"
DiffQ(want, got) ==
    IF Len(want) # Len(got) THEN {<<"length", "", "">>}
    ELSE {<<want[k][1], Fault(want[k], got[k]), want[k][3]>> : k \in {x \in DOMAIN want : want[x] # got[x]}}
Verdict(e) ==
    LET st == Fold(Empty, e.hist)
        wq == QualSeq(st, e.d)
        wexc == RenderRaises(st, e.d)
    IN [tid |-> e.tid,
        bad |-> IF e.exc # "" \/ wexc # "" THEN (IF e.exc = wexc THEN {} ELSE {<<"raises", e.exc, wexc>>}) ELSE DiffQ(wq, e.quals),
        want |-> wq]
Next == /\ i <= Len(Events)
        /\ LET v == Verdict(Events[i]) IN IF v.bad = {} THEN TRUE ELSE PrintT("V " \o ToJson(v))
        /\ i' = i + 1
Spec == Init /\ [][Next]_i
=============================================================================
