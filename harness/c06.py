"""C06 - operator grouping survives rendering.

spec:  PT_Expr (trees, intended bracket rule, Pratt parser, Canon), MC_Expr (generator + ParseBack on the design)
judge: J_C06  (parses the token stream of the REAL rendering and compares canonical trees)
"""
from __future__ import annotations

import json
import operator

from harness import core, lexer, tlc


def build(t):
    """tree descriptor -> real pypika term"""
    from pypika_tortoise import Case, Field
    from pypika_tortoise.terms import Function, Negative, Not, NullCriterion, ValueWrapper

    k = t["k"]
    if k == "fld" and t["n"] == SUBQ:
        # a scalar subquery as an operand: its rendering is ( SELECT ... ), which collapse_subqueries turns back into the one identifier SUBQ_OK
        from pypika_tortoise import Query, Table
        from pypika_tortoise import functions as fn
        return Query.from_(Table("sqt")).select(fn.Max(Field("x")))
    if k == "fld":
        return Field(t["n"])
    if k == "num":
        return ValueWrapper(int(t["n"]))
    if k == "bin":
        l, r, op = build(t["l"]), build(t["r"]), t["op"]
        f = {"+": operator.add, "-": operator.sub, "*": operator.mul, "/": operator.truediv,
             "=": operator.eq, "<>": operator.ne, "<": operator.lt, "<=": operator.le, ">": operator.gt,
             ">=": operator.ge, "AND": operator.and_, "OR": operator.or_, "XOR": operator.xor}[op]
        return f(l, r)
    if k == "neg":
        return -build(t["a"])
    if k == "not":
        return Not(build(t["a"]))
    if k == "isnull":
        return build(t["a"]).isnull()
    if k == "in":
        return build(t["a"]).isin([build(x) for x in t["items"]])
    if k == "between":
        return build(t["a"]).between(build(t["lo"]), build(t["hi"]))
    if k == "call":
        if t["f"] == "MOD" and len(t["args"]) == 2:
            return build(t["args"][0]) % build(t["args"][1])      # the % operator builds the MOD() function term
        if t["f"] == "POW" and len(t["args"]) == 2:
            return build(t["args"][0]) ** build(t["args"][1])
        return Function(t["f"], *[build(x) for x in t["args"]])
    if k == "case":
        return Case().when(build(t["w"]), build(t["t"])).else_(build(t["e"]))
    raise core.MachineryError(f"unknown tree kind {k}")


SUBQ = "SUBQ_OK"


def collapse_subqueries(toks):
    """( SELECT ... ) becomes the single identifier SUBQ_OK (the operand as one bracketed unit); a SELECT that is NOT directly inside its own
    brackets becomes SUBQ_BARE followed by what it swallowed - a different leaf, so the tree no longer parses back"""
    out, i, n = [], 0, len(toks)
    while i < n:
        t = toks[i]
        if t["t"] == "punct" and t["v"] == "(" and i + 1 < n and toks[i + 1]["t"] == "word" and toks[i + 1]["v"] == "SELECT":
            depth, j = 0, i
            while j < n:
                if toks[j]["t"] == "punct" and toks[j]["v"] == "(":
                    depth += 1
                elif toks[j]["t"] == "punct" and toks[j]["v"] == ")":
                    depth -= 1
                    if depth == 0:
                        break
                j += 1
            out.append({"t": "id", "v": SUBQ, "q": '"'})
            i = j + 1
            continue
        if t["t"] == "word" and t["v"] == "SELECT":
            out.append({"t": "id", "v": "SUBQ_BARE", "q": '"'})
            i += 1
            continue
        out.append(t)
        i += 1
    return out


def subquery_operands():
    """a scalar subquery as the RIGHT operand of every arithmetic / comparison operator, alone and beside a compound left operand, under unary
    minus, as a function argument (a query on the left of + - * is a set operation by the builder's operator overloads)"""
    def F(n):
        return {"k": "fld", "n": n}

    def B(op, l, r):
        return {"k": "bin", "op": op, "l": l, "r": r}
    out = []
    for op in ("+", "-", "*", "/", "=", "<", ">="):
        out += [B(op, F("a"), F(SUBQ)), B(op, B("+", F("a"), F("b")), F(SUBQ)), B(op, B("*", F("a"), F("b")), F(SUBQ))]
    out += [B("+", B("*", F("a"), F(SUBQ)), F("c")), B("-", F("c"), B("*", F("a"), F(SUBQ))), B("AND", B("=", F("a"), F(SUBQ)), B("=", F("b"), {"k": "num", "n": "1"})),
            {"k": "call", "f": "FN", "args": [F(SUBQ), F("a")]}, {"k": "between", "a": F("a"), "lo": F(SUBQ), "hi": {"k": "num", "n": "5"}},
            {"k": "in", "a": F("a"), "items": [F(SUBQ), {"k": "num", "n": "2"}]}]
    return out


def operator_functions():
    """arithmetic written with Python's % and ** becomes a function call (MOD, POW): as an operand of the infix operators it must stay one unit"""
    def F(n):
        return {"k": "fld", "n": n}

    def B(op, l, r):
        return {"k": "bin", "op": op, "l": l, "r": r}

    def C(f, a, b):
        return {"k": "call", "f": f, "args": [a, b]}
    out = []
    for f in ("MOD", "POW"):
        for op in ("+", "-", "*", "/"):
            out += [B(op, F("a"), C(f, F("b"), F("c"))), B(op, C(f, F("a"), F("b")), F("c")), C(f, B(op, F("a"), F("b")), F("c")), C(f, F("a"), B(op, F("b"), F("c")))]
        out += [C(f, F("a"), C(f, F("b"), {"k": "num", "n": "2"})), C(f, C(f, F("a"), F("b")), F("c")), {"k": "neg", "a": C(f, F("a"), F("b"))},
                B("=", C(f, F("a"), {"k": "num", "n": "2"}), {"k": "num", "n": "0"})]
    return out


def generate(mode: str, rep: core.Report):
    cfg = f'CONSTANT Mode = "{mode}"\nINIT Init\nNEXT Next\nINVARIANT ParseBack\nINVARIANT Emit\n'
    r = tlc.run("MC_Expr", cfg, workers=16, heap="6g", timeout=1500)
    rep.add_tlc(r)
    if r.violation:
        raise core.MachineryError(f"the INTENDED renderer of PT_Expr violates {r.violation}: spec bug\n{r.raw_tail[-1500:]}")
    trees = r.json_tagged("T")
    if len(trees) != r.distinct or not trees:
        raise core.MachineryError(f"generator printed {len(trees)} trees for {r.distinct} states")
    return trees


def generate_grow(tier: str, rep: core.Report):
    if tier == "quick":
        consts = 'MaxDepth = 3\nOpsUsed = {"+", "-", "*", "/", "=", "AND", "OR"}\nUnaryUsed = {"neg", "not", "isnull"}'
    else:
        consts = ('MaxDepth = 3\nOpsUsed = {"+", "-", "*", "/", "=", "<", "AND", "OR", "XOR"}\n'
                  'UnaryUsed = {"neg", "not", "isnull", "in", "between", "betweenhi"}')
    cfg = "CONSTANTS\n" + consts + "\nINIT Init\nNEXT Next\nINVARIANT ParseBack\nINVARIANT Emit\n"
    r = tlc.run("MC_ExprGrow", cfg, workers=16, heap="6g", timeout=2500)
    rep.add_tlc(r)
    if r.violation:
        raise core.MachineryError(f"the INTENDED renderer violates {r.violation} on a grown tree: spec bug\n{r.raw_tail[-1500:]}")
    trees = r.json_tagged("T")
    if len(trees) != r.distinct or not trees:
        raise core.MachineryError(f"grow generator printed {len(trees)} trees for {r.distinct} states")
    return trees


def observe(trees):
    """render every tree under the six contexts; group identical token streams"""
    ctxs = core.contexts()
    events = []
    for n, t in enumerate(trees):
        term = build(t)
        seen = {}
        for d, ctx in ctxs.items():
            try:
                text = term.get_sql(ctx)
            except Exception as ex:  # noqa
                raise core.MachineryError(f"render failed for {t}: {ex!r}")
            toks = lexer.slim(collapse_subqueries(lexer.lex(text, core.lex_dialect(d))))
            key = json.dumps(toks)
            if key in seen:
                seen[key]["ctxs"].append(d)
            else:
                seen[key] = {"tid": len(events) + len(seen), "tree": t, "toks": toks, "ctxs": [d], "text": text}
        events.extend(seen.values())
    for i, e in enumerate(events):
        e["tid"] = i
    return events


def clause_positions(trees, events0, tier):
    """the same trees where a statement puts them: select-list item (rendered with with_alias=True), WHERE, HAVING, JOIN ON, ORDER BY, GROUP BY,
    SET value, INSERT value, RETURNING - the expression text found there must parse back to the tree"""
    from pypika_tortoise import PostgreSQLQuery, Query, Table

    t, u = Table("t"), Table("u")
    BOOL = {"=", "<>", "<", "<=", ">", ">=", "AND", "OR", "XOR"}

    def is_bool(x):
        return (x["k"] == "bin" and x["op"] in BOOL) or x["k"] in ("not", "isnull", "in", "between")

    def between(toks, a, b):
        i = next(k for k, tk in enumerate(toks) if tk["t"] == "word" and tk["v"] == a and tk.get("d", 0) == 0)
        rest = toks[i + 1:]
        if b is None:
            return rest
        j = next(k for k, tk in enumerate(rest) if tk["t"] == "word" and tk["v"] == b and tk.get("d", 0) == 0)
        return rest[:j]

    def after2(toks, a, b):   # after the two-word keyword  a b
        i = next(k for k in range(len(toks) - 1) if toks[k]["v"] == a and toks[k + 1]["v"] == b and toks[k].get("d", 0) == 0)
        return toks[i + 2:]
    sites = {
        "select-item": (lambda x: Query.from_(t).select(x), lambda tk: between(tk, "SELECT", "FROM"), None),
        "where": (lambda x: Query.from_(t).select(t.z).where(x), lambda tk: between(tk, "WHERE", None), True),
        "having": (lambda x: Query.from_(t).select(t.z).groupby(t.z).having(x), lambda tk: between(tk, "HAVING", None), True),
        "join-on": (lambda x: Query.from_(t).join(u).on(x).select(t.z), lambda tk: between(tk, "ON", None), True),
        "orderby": (lambda x: Query.from_(t).select(t.z).orderby(x), lambda tk: after2(tk, "ORDER", "BY"), None),
        "groupby": (lambda x: Query.from_(t).select(t.z).groupby(x), lambda tk: after2(tk, "GROUP", "BY"), None),
        "set-value": (lambda x: Query.update(t).set(t.z, x), lambda tk: between(tk, "SET", None)[2:], None),
        "returning": (lambda x: PostgreSQLQuery.into(t).insert(1).returning(x), lambda tk: between(tk, "RETURNING", None), None),
    }
    step = 5 if tier == "quick" else 2
    out = []
    ctx = core.contexts()["generic"]
    for n, tr in enumerate(trees):
        if n % step:
            continue
        for sname, (mk, span, needbool) in sites.items():
            if needbool and not is_bool(tr):
                continue
            if sname == "returning" and tr["k"] == "call":
                continue  # (RETURNING rejects function terms: C14's)
            try:
                obj = mk(build(tr))
                text = obj.get_sql(ctx) if sname != "returning" else str(obj)
            except Exception:  # noqa  (a position that does not accept this kind of term)
                continue
            try:
                toks = lexer.slim(collapse_subqueries(span(lexer.lex(text, "sqlite"))))
            except StopIteration:
                continue  # (the text is cut by a comment: the bare-term rendering of this tree already reports it)
            out.append({"tid": events0 + len(out), "tree": tr, "toks": toks, "ctxs": ["generic"], "text": text, "site": "at:" + sname})
    return out


def containers(events0):
    """criteria combined by the API rather than by an operator: repeated filter() / where() / having() calls, filter(c1, c2),
    Criterion.all / any.  The condition text found in the rendering must parse back to the conjunction (disjunction) of the parts."""
    from pypika_tortoise import Query, Table
    from pypika_tortoise import functions as fn
    from pypika_tortoise import analytics as an
    from pypika_tortoise.terms import Criterion

    def F(n):
        return {"k": "fld", "n": n}

    def N(n):
        return {"k": "num", "n": str(n)}

    def B(op, l, r):
        return {"k": "bin", "op": op, "l": l, "r": r}
    eq = lambda a, v: B("=", F(a), N(v))  # noqa: E731
    parts = [eq("a", 1), B("OR", eq("a", 1), eq("b", 2)), B("AND", eq("a", 1), eq("b", 2)), B("XOR", eq("a", 1), eq("b", 2)),
             {"k": "not", "a": B("OR", eq("a", 1), eq("b", 2))}, {"k": "isnull", "a": F("c")},
             {"k": "in", "a": F("c"), "items": [N(1), N(2)]}, {"k": "between", "a": F("c"), "lo": N(1), "hi": N(5)},
             B("OR", B("AND", eq("a", 1), eq("b", 2)), eq("c", 3))]
    t = Table("t")
    x = t.x

    def span_after(toks, word, stop_close=False):
        k = next(i for i, tk in enumerate(toks) if tk["t"] == "word" and tk["v"] == word)
        rest = toks[k + 1:]
        if stop_close:
            rest = rest[:-1]  # the bracket closing FILTER( ... )
        return rest
    sites = {
        "filter.filter": (lambda a, b: fn.Sum(x).filter(a).filter(b), "AND", lambda toks: span_after(toks, "WHERE", True)),
        "filter(a,b)": (lambda a, b: fn.Sum(x).filter(a, b), "AND", lambda toks: span_after(toks, "WHERE", True)),
        "analytic.filter.filter": (lambda a, b: an.Sum(x).filter(a).filter(b), "AND", lambda toks: span_after(toks, "WHERE", True)),
        "where.where": (lambda a, b: Query.from_(t).select(x).where(a).where(b), "AND", lambda toks: span_after(toks, "WHERE")),
        "having.having": (lambda a, b: Query.from_(t).select(x).having(a).having(b), "AND", lambda toks: span_after(toks, "HAVING")),
        "prewhere.prewhere": (lambda a, b: Query.from_(t).select(x).prewhere(a).prewhere(b), "AND", lambda toks: span_after(toks, "PREWHERE")),
        "Criterion.all": (lambda a, b: Criterion.all([a, b]), "AND", lambda toks: toks),
        "Criterion.any": (lambda a, b: Criterion.any([a, b]), "OR", lambda toks: toks),
        "on_conflict.where.where": (lambda a, b: Query.into(t).insert(1).on_conflict("k").do_update("v", 2).where(a).where(b), "AND",
                                    lambda toks: span_after(toks[next(i for i, tk in enumerate(toks) if tk["v"] == "SET"):], "WHERE")),
    }
    ctxs = core.contexts()
    out = []
    for sname, (mk, op, span) in sites.items():
        for a in parts:
            for b in parts:
                obj = mk(build(a), build(b))
                seen = {}
                for d, ctx in ctxs.items():
                    text = obj.get_sql(ctx)
                    toks = lexer.slim(span(lexer.lex(text, core.lex_dialect(d))))
                    key = json.dumps(toks)
                    if key in seen:
                        seen[key]["ctxs"].append(d)
                    else:
                        seen[key] = {"tree": B(op, a, b), "toks": toks, "ctxs": [d], "text": text, "site": sname}
                out.extend(seen.values())
    for i, e in enumerate(out):
        e["tid"] = events0 + i
    return out


def judge(events, rep: core.Report):
    cfg = "INIT Init\nNEXT Next\n"
    slim = [{"tid": e["tid"], "tree": e["tree"], "toks": e["toks"]} for e in events]
    results = tlc.judge_shards("J_C06", cfg, slim, shard=2500)
    rep.add_tlc(results)
    verdicts = {}
    for r in results:
        for v in r.json_tagged("V"):
            verdicts[v["tid"]] = v
    if len(verdicts) != len(events):
        raise core.MachineryError(f"judge returned {len(verdicts)} verdicts for {len(events)} events")
    return verdicts


def run(tier: str) -> int:
    rep = core.Report("C06", tier)
    trees = generate("edge" if tier == "quick" else "full", rep)
    grown = generate_grow(tier, rep)
    have = {json.dumps(t, sort_keys=True) for t in trees}
    trees += [t for t in grown if json.dumps(t, sort_keys=True) not in have]
    rep.extra["grown_trees"] = len(grown)
    trees += operator_functions()
    trees += subquery_operands()
    events = observe(trees)
    events += containers(len(events))
    events += clause_positions(trees, len(events), tier)
    verdicts = judge(events, rep)
    rep.traces = len(events)
    rep.evaluations = sum(len(e["ctxs"]) for e in events)
    # unambiguous failures (one bracket-needing edge) first, so that ambiguous ones attach to them
    for e in sorted(events, key=lambda e: (len(verdicts[e["tid"]]["edges"]), e["tid"])):
        v = verdicts[e["tid"]]
        rep.distinct.add(json.dumps(e["tree"], sort_keys=True))
        if not v["ok"]:
            # alternatives: the edges where the intended design needs a bracket; a tree that fails
            # without any such edge lost or regrouped something else (signature: its root)
            sigs = sorted(list(x) for x in v["edges"]) or [["unbracketed-tree", e["tree"]["k"], e["tree"].get("op", "")]]
            if SUBQ in json.dumps(e["tree"]):
                # (one precise signature: the operator the subquery is an operand of, and whether the term stood alone or in a statement)
                def parent_of(t):
                    for key in ("l", "r", "a", "lo", "hi", "w", "t", "e"):
                        c = t.get(key)
                        if isinstance(c, dict):
                            if c.get("n") == SUBQ:
                                return t["k"] + (t.get("op") or ""), key
                            r = parent_of(c)
                            if r:
                                return r
                    for key in ("args", "items"):
                        for c in t.get(key, []):
                            if c.get("n") == SUBQ:
                                return t["k"] + (t.get("f") or ""), key
                            r = parent_of(c)
                            if r:
                                return r
                    return None
                po = parent_of(e["tree"]) or ("?", "?")
                sigs = [["subquery-operand", po[0], po[1], "in-statement" if e.get("site", "").startswith("at:") else "stand-alone"]]
            if e.get("site", "").startswith("at:"):
                sigs = sigs + [["at-position", e["site"][3:], e["tree"]["k"], e["tree"].get("op", "")]]
            elif e.get("site"):
                # criteria combined by the API: the parts' own bracket needs are the same edges; the combination itself is the site
                sigs = sigs + [["combined-by", e["site"], e["tree"]["l"]["k"] + e["tree"]["l"].get("op", ""), e["tree"]["r"]["k"] + e["tree"]["r"].get("op", "")]]
            rep.discrepancy(sigs, {"tree": e["tree"], "text": e["text"], "ctxs": e["ctxs"], "why": v["why"], "site": e.get("site", "term")},
                            what=f"rendered text regroups or fuses operators ({v['why']})")
        elif len(rep.samples) < 4 and e["tree"]["k"] == "bin" and e["tree"]["l"]["k"] == "bin":
            rep.sample({"tree": e["tree"], "text": e["text"], "verdict": "parse-back ok"})
    rep.rule = ("TLC enumerates every expression tree of MC_Expr.Trees (mode edge: all parent/child/side triples; "
                "full: both operands compound); each is built with the real operators, rendered in 6 contexts, lexed, "
                "parsed by PT_Expr!Parse inside TLC and compared via Canon; distinct = distinct trees; plus 9 criteria x 9 criteria combined by 9 API "
                "constructs (repeated filter / where / having / prewhere / conflict-where calls, filter(a, b), Criterion.all / any), the condition text "
                "parsed back against the conjunction / disjunction of the parts")
    rep.exhaustive = True
    rep.extra["trees"] = len(trees)
    rep.assumptions = ["standard-SQL precedence table of PT_Expr (App. D)", "Python lexer (cross-validated by PT_Lex in C05/C07)"]
    return rep.finish()


def replay(path: str) -> int:
    ex = json.load(open(path))["example"]
    term = build(ex["tree"])
    for d, ctx in core.contexts().items():
        print(d, term.get_sql(ctx))
    print("built tree:", json.dumps(ex["tree"]))
    return 0
