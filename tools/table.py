"""Maintenance: one line per property from the evidence files (for DESIGN 12.3 / 12.5)."""
import json, glob, os, collections
root = os.path.dirname(os.path.dirname(os.path.abspath(__file__)))
known = collections.Counter(f["property"] for f in json.load(open(os.path.join(root, "known_findings.json")))["findings"])
print("| id | tier | TLC states | events judged | known-finding signatures listed | wall |\n|---|---|---|---|---|---|")
for p in sorted(glob.glob(os.path.join(root, "evidence", "C*.json"))):
    e = json.load(open(p)); c = e["coverage"]
    wall = e.get("wall_s", "")
    print(f"| {e['property_id']} | {e['tier']} | {c.get('states','')} | {c.get('traces_validated_against_impl','')} | {known.get(e['property_id'],0)} | {wall} |")
