"""C04 - parameterised rendering is equivalent to inline rendering.

spec:  PT_Param (Placeholder per dialect, literal spans that decode to a value, parallel walk ParamEquiv, Residue), MC_C04 (value-bearing programs)
judge: J_C04 (inline tokens / parameterised tokens / value list of the same real object)
"""
from __future__ import annotations

import datetime
import json
import sqlite3

from harness import core, execb, lexer, tlc
from harness.c11 import gen

POSITIONS = ["top", "subquery-from", "subquery-in", "setop", "cte", "select-item"]


def describe(v):
    if v is None:
        return {"k": "null"}
    if isinstance(v, bool):
        return {"k": "bool", "v": v}
    if isinstance(v, int):
        return {"k": "int", "v": str(v)} if v >= 0 else {"k": "neg", "v": str(-v)}
    if isinstance(v, float):
        return {"k": "float", "v": repr(v)} if v >= 0 else {"k": "obj"}
    if isinstance(v, str):
        return {"k": "str", "v": v}
    if isinstance(v, (datetime.date, datetime.time)):
        return {"k": "str", "v": v.isoformat()}
    if isinstance(v, list):
        return {"k": "list", "items": [describe(x) for x in v]}
    return {"k": "obj", "cls": type(v).__name__}


def canon_nums(toks):
    """non-integer numeric literals by VALUE (101.50, 1.015e2 and 101.5 are one literal): the property is about the value an engine reads"""
    for t in toks:
        if t["t"] == "num" and any(ch in t["v"] for ch in ".eE"):
            try:
                t["v"] = repr(float(t["v"]))
            except ValueError:
                pass
    return toks


def marked_values(hist):
    """payloads of the (pairwise distinct) values the program put in: none of them may remain as a literal in the parameterised text"""
    out = []

    def walk(x):
        if isinstance(x, dict):
            if x.get("k") == "num" and x["n"].lstrip("-").isdigit() and int(x["n"].lstrip("-")) >= 100:
                out.append(x["n"].lstrip("-"))
            elif x.get("k") == "str" and x["n"].startswith("s1"):
                out.append(x["n"])
            elif x.get("k") == "flt":
                out.append(repr(float(x["n"])))
            if x.get("k") == "vext":
                pass  # (its constants are walked below like any other value record)
            if x.get("m") in ("limit", "offset"):
                out.append(str(x["n"]))
            for v in x.values():
                walk(v)
        elif isinstance(x, list):
            for v in x:
                walk(v)
    walk(hist)
    return sorted(set(out))


def exempt_values(hist):
    """payloads of the constants the program exempts from parameterisation (term kind noparam)"""
    out = []

    def walk(x):
        if isinstance(x, dict):
            if x.get("k") == "noparam":
                out.append(x["n"])
            for v in x.values():
                walk(v)
        elif isinstance(x, list):
            for v in x:
                walk(v)
    walk(hist)
    return sorted(set(out))


def place(env, Q, q, pos, kind, hist=()):
    P = env.P
    o = P.Table("ot")
    if pos == "top" or kind != "select":
        return q
    if pos == "subquery-from":
        return Q.from_(q.as_("sq")).select("a").where(P.Field("a") == 999)
    if pos == "subquery-in":
        return Q.from_(o).select(o.k).where(o.j == 998).where(o.k.isin(q)).where(o.i == 997)
    if pos == "setop":
        n = sum(len(c["terms"]) for c in hist if c["m"] == "select") or 1
        return q.union(Q.from_(o).select(*[o.field("k%d" % i) for i in range(n)]).where(o.j == 996)).limit(995)
    if pos == "cte":
        return Q.with_(q, "cq").from_(P.AliasedQuery("cq")).select("a").where(P.Field("a") == 994)
    if pos == "select-item":
        return Q.from_(o).select(o.k, q.as_("si")).where(o.j == 993)
    raise core.MachineryError(pos)


SCHEMA = ["CREATE TABLE t1 (a, b, c)", "CREATE TABLE t2 (a, b, c)", "CREATE TABLE ot (k, j, i, k0, k1, k2, k3)",
          "INSERT INTO t1 VALUES (1, 101, 0), (2, 's102', 1), (3, 103.5, 1), (NULL, NULL, NULL), (104, 105, 106)",
          "INSERT INTO t2 VALUES (1, 's101', 0), (2, 's103', 1)", "INSERT INTO ot VALUES (1, 998, 997, 1, 2, 3, 4), (2, 993, 0, 0, 0, 0, 0)"]


def sqlite_same(sql_inline, sql_param, values):
    """execute both forms on a small database: same outcome (rows or error class)"""
    def run(sql, args):
        con = sqlite3.connect(":memory:")
        try:
            for s in SCHEMA:
                con.execute(s)
            cur = con.execute(sql, args)
            rows = cur.fetchall()
            tables = [con.execute("SELECT * FROM %s" % t).fetchall() for t in ("t1", "t2")]
            return ("ok", rows, tables)
        except sqlite3.Error as ex:
            return ("err", type(ex).__name__, str(ex)[:40])
        finally:
            con.close()
    a, b = run(sql_inline, []), run(sql_param, values)
    return a == b or (a[0] == "err" and b[0] == "err"), a, b


def run(tier: str) -> int:
    from pypika_tortoise.terms import Parameterizer

    rep = core.Report("C04", tier)
    execb.Env(core.query_classes()["generic"])
    crit = {"Bitand", "Like", "JsonGet", "Tuple", "Not", "NotIn", "IsinSubquery", "XorChain"}
    vext = "G_VExt == {" + ", ".join('<<"%s", %d, %s>>' % (k, a, "TRUE" if k in crit else "FALSE") for k, (a, _) in sorted(execb._vext().items())) + "}\n"
    r = tlc.run("MC_C04Gen", f"CONSTANTS\nMaxCalls = {2 if tier == 'quick' else 3}\nSrcTab <- G_SrcTab\nVExt <- G_VExt\nINIT Init\nNEXT Next\nINVARIANT Emit\n",
                workers=16, heap="6g", extra_files={"MC_C04Gen.tla": gen("MC_C04", vext)}, timeout=2400)
    rep.add_tlc(r)
    if r.violation or not r.ok:
        raise core.MachineryError(f"MC_C04: {r.violation}\n{r.raw_tail[-1500:]}")
    hs = r.json_tagged("H")
    events, meta = [], []
    engine = 0
    for d, Q in core.query_classes().items():
        ld = core.lex_dialect(d)
        for h in hs:
            # (three value-bearing clauses: two positions instead of six - the whole product does not fit into memory beside the 16 judges)
            deep = len(h["hist"]) - {"select": 2, "insert": 1, "upsert": 3, "update": 2}.get(h["kind"], 2) >= 3
            for pos in ((["top", "subquery-in"] if deep else POSITIONS) if h["kind"] == "select" else ["top"]):
                if h["kind"] == "upsert" and not any(c["m"] in ("do_update", "do_nothing") for c in h["hist"]):
                    continue  # ON CONFLICT without a handler is rejected at render time (C14)
                if d == "mssql" and ('"arr"' in json.dumps(h["hist"]) or '"arrn"' in json.dumps(h["hist"])):
                    continue  # [..] is a bracket-quoted identifier in T-SQL, not an array literal
                env = execb.Env(Q)
                q, excs = env.run(h["hist"])
                if any(excs):
                    continue  # a rejected call: guards are C14's
                try:
                    obj = place(env, Q, q, pos, h["kind"], h["hist"])
                    ctx = Q.SQL_CONTEXT
                    inline = obj.get_sql(ctx)
                    p = Parameterizer()
                    param = obj.get_sql(ctx.copy(parameterizer=p))
                    vals = list(p.values)
                    if hasattr(obj, "get_parameterized_sql") and not type(obj).__name__.startswith("_Set"):
                        param2, vals2 = obj.get_parameterized_sql(ctx)
                        if param2 != param or [repr(x) for x in vals2] != [repr(x) for x in vals]:
                            rep.discrepancy([[d, "get_parameterized_sql-differs", h["kind"]]], {"dialect": d, "program": h, "position": pos},
                                            what="get_parameterized_sql() and get_sql(ctx with a parameterizer) disagree")
                        # ... and with a context that already carries the caller's own (still empty) parameterizer: that one collects the values
                        p3 = Parameterizer()
                        param3, vals3 = obj.get_parameterized_sql(ctx.copy(parameterizer=p3))
                        if param3 != param or [repr(x) for x in vals3] != [repr(x) for x in vals] or [repr(x) for x in p3.values] != [repr(x) for x in vals]:
                            rep.discrepancy([[d, "get_parameterized_sql-own-parameterizer", h["kind"]]],
                                            {"dialect": d, "program": h, "position": pos, "param": param3, "returned": repr(vals3), "collected_by_callers_parameterizer": repr(p3.values)},
                                            what="get_parameterized_sql(ctx) with the caller's parameterizer in ctx: text / returned values / the parameterizer's values disagree")
                except Exception as ex:  # noqa
                    rep.discrepancy([[d, pos, "raises:" + type(ex).__name__, h["kind"]]], {"dialect": d, "program": h, "position": pos},
                                    what="rendering raises")
                    continue
                if not inline:
                    continue
                events.append({"tid": len(events), "d": d, "inline": canon_nums(lexer.slim(lexer.lex(inline, ld))), "param": canon_nums(lexer.slim(lexer.lex(param, ld))),
                               "vals": [describe(v) for v in vals], "marked": marked_values(h["hist"]), "exempt": exempt_values(h["hist"])})
                meta.append((d, h, pos, inline, param, vals))
                if d == "sqlite":
                    engine += 1
                    same, a, b = sqlite_same(inline, param, vals)
                    if not same:
                        rep.discrepancy([[d, pos, "engine-differs", h["kind"]]],
                                        {"dialect": d, "program": h, "position": pos, "inline": inline, "param": param, "values": repr(vals),
                                         "inline_result": repr(a)[:200], "param_result": repr(b)[:200]},
                                        what="SQLite returns different results for the inline and the parameterised form")
    results = tlc.judge_shards("J_C04", "INIT Init\nNEXT Next\n", events, shard=max(400, len(events) // 16 + 1), heap="3g", timeout=3000)
    rep.add_tlc(results)
    if sum(max(x.distinct - 1, 0) for x in results) != len(events):
        raise core.MachineryError("J_C04 did not consume every event")
    rep.traces = len(events)
    rep.evaluations = len(events)
    rep.distinct = {(m[2], json.dumps(m[1]["hist"], sort_keys=True)) for m in meta}
    rep.extra["sqlite_executed_pairs"] = engine
    bad = []
    for res in results:
        bad += res.json_tagged("V")
    for v in sorted(bad, key=lambda v: len(meta[v["tid"]][3])):
        d, h, pos, inline, param, vals = meta[v["tid"]]
        construct = sorted({c["m"] for c in h["hist"][-2:]})
        if v["fault"]:
            rep.discrepancy([[d, pos, v["fault"], h["kind"]] + [m] for m in construct] if len(construct) > 1 else [[d, pos, v["fault"], h["kind"]] + construct],
                            {"dialect": d, "position": pos, "calls": h["hist"], "inline": inline, "param": param, "values": repr(vals)},
                            what=f"parameterised rendering: {v['fault']}")
        if v["residue"]:
            ex = [x for x in v["residue"] if x.startswith("exempt-constant-parameterised:")]
            rest = sorted(set(v["residue"]) - set(ex))
            if ex:
                rep.discrepancy([[d, pos, "exempt-parameterised", h["kind"]]], {"dialect": d, "position": pos, "calls": h["hist"], "param": param, "inline": inline, "exempt": ex},
                                what="a constant exempt from parameterisation (allow_parametrize=False) is bound as a parameter")
            if rest:
                rep.discrepancy([[d, pos, "residue", h["kind"]]], {"dialect": d, "position": pos, "calls": h["hist"], "param": param, "left_inline": rest},
                                what="a parameterised value's text remains in the SQL")
    for k in (0, len(meta) // 2, len(meta) - 1):
        rep.sample({"dialect": meta[k][0], "position": meta[k][2], "inline": meta[k][3], "param": meta[k][4], "values": repr(meta[k][5])})
    rep.rule = ("TLC grows value-bearing programs (5 statement kinds; select list constants, arithmetic, CASE, function args, arrays, GROUP BY expressions, HAVING, "
                "JOIN ON, ORDER BY, WHERE =/IN/BETWEEN/bool, LIMIT/OFFSET, INSERT rows, upsert updates, SET) with pairwise distinct values in up to N clauses; "
                "each is placed at 6 nesting positions and rendered inline and parameterised under the 6 dialect classes; TLC walks both token streams in "
                "parallel (PT_Param); SQLite executes both forms")
    rep.exhaustive = True
    return rep.finish()


def replay(path: str) -> int:
    print(json.dumps(json.load(open(path))["example"], indent=1))
    return 0
