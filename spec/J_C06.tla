------------------------------- MODULE J_C06 -------------------------------
(* Judge for C06: every event is a tree that was built with the real        *)
(* operators and the token stream of its real rendering.                    *)
EXTENDS PT_Expr, Json, IOUtils
Events == ndJsonDeserialize(IOEnv.TRACE_FILE)
VARIABLE i
Init == i = 1
Verdict(e) ==
    LET ok == ParseBackOK(e.tree, e.toks) IN
    [tid |-> e.tid, ok |-> ok,
     edges |-> IF ok THEN {} ELSE NeedEdges(e.tree),
     alledges |-> IF ok THEN {} ELSE Edges(e.tree),
     why |-> IF ok THEN "" ELSE IF HasComment(e.toks) THEN "comment" ELSE IF Parse(e.toks) = ErrT THEN "noparse" ELSE "regroup"]
Next == /\ i <= Len(Events)
        /\ PrintT("V " \o ToJson(Verdict(Events[i])))
        /\ i' = i + 1
Spec == Init /\ [][Next]_i
Done == i = Len(Events) + 1
=============================================================================
