"""Maintenance tool (never run by a check): turn the replay files of a run on the
unchanged tree into known_findings.json entries, after manual review.
usage: python -m harness.mkknown C06 "<what>" [--multi]   (only unambiguous signatures unless --multi)"""
import glob
import json
import os
import sys

from harness import core


def main():
    prop, what = sys.argv[1], sys.argv[2]
    multi = "--multi" in sys.argv
    data = json.load(open(core.KNOWN_PATH))
    have = {core.canon(f["sig"]) for f in data["findings"] if f["property"] == prop}
    n = 0
    for p in sorted(glob.glob(os.path.join(core.REPLAY_DIR, prop, "*.json"))):
        r = json.load(open(p))
        if not multi and r.get("all_sigs") and len(r["all_sigs"]) > 1:
            continue
        if core.canon(r["sig"]) in have:
            continue
        data["findings"].append({"property": prop, "sig": r["sig"], "what": what if what != "-" else r["what"], "example": r["example"]})
        n += 1
    data["findings"].sort(key=lambda f: (f["property"], core.canon(f["sig"])))
    json.dump(data, open(core.KNOWN_PATH, "w"), indent=1)
    print("added", n)


main()
