"""C07 - user-supplied names are emitted as single, correctly quoted identifiers.

spec:  PT_Lex (reference lexer, EncIdent, IdentRoundTrip / EmbedsIdent), MC_Lex (design check)
judge: J_Lit  (TLC lexes the real text; every occurrence of the benign marker identifier must have become one identifier
               token, in the dialect's quote character, decoding to the supplied name; nothing else may change)
"""
from __future__ import annotations

import itertools
import json
import random

from harness import core, lexer, lit, tlc

MARK = "zqz"
ALPHABET = ["a", "A", "1", " ", ".", '"', "`", "'", "[", "]", "é", "-", "\\", "{", "}"]
CLASS = {" ": "space", ".": "dot", '"': "dquote", "`": "backtick", "'": "squote", "[": "lbracket", "]": "rbracket",
         "-": "dash", "\\": "backslash", "{": "brace", "}": "brace"}
KEYWORDS = ["select", "order", "Group", "table", "from", "null"]


SHARE: dict = {}      # name-bearing objects of the current statement family (cross-dialect pass: kept between two renderings)
SHARING = [False]


def sites():
    from pypika_tortoise import AliasedQuery, Column, Database, Field, Schema
    from pypika_tortoise import Table as _Table
    from pypika_tortoise import functions as fn
    from pypika_tortoise.terms import Index

    def Table(name, **kw):
        """a table object; in the cross-dialect pass the SAME object (and so the same Schema / alias state) serves both renderings"""
        if not SHARING[0]:
            return _Table(name, **kw)
        key = ("T", name, repr(sorted(kw.items())))
        if key not in SHARE:
            SHARE[key] = _Table(name, **kw)
        return SHARE[key]

    def shared(key, mk):
        if not SHARING[0]:
            return mk()
        if key not in SHARE:
            SHARE[key] = mk()
        return SHARE[key]

    t, u = _Table("t"), _Table("u")

    def ddl_decoys():
        # other DDL statements come into being, through every query class, between building a DDL statement and rendering it
        for Q2 in core.query_classes().values():
            Q2.create_table("decoy").columns(Column("d", "INT"))
            Q2.drop_table("decoy")

    def render(Q, q):
        ddl_decoys()
        return q.get_sql(Q.SQL_CONTEXT)

    def late(q):
        ddl_decoys()
        return q

    def from_table(Q, n): return str(Q.from_(Table(n)).select("x"))
    def from_table_star(Q, n): return str(Q.from_(Table(n)).join(u).on(Table(n).x == u.x).select(Table(n).star))
    def join_table(Q, n): return str(Q.from_(t).join(Table(n)).on(t.x == Table(n).x).select(t.x))
    def schema(Q, n): return str(Q.from_(Table("t", schema=n)).select("x"))
    def schema_nested(Q, n): return str(Q.from_(Table("t", schema=("s", n))).select("x"))
    def schema_object(Q, n):
        sc = shared(("S", n), lambda: Schema(n))
        return str(Q.from_(sc.t).select("x"))
    def database(Q, n):
        db = shared(("D", n), lambda: Database(n))
        return str(Q.from_(db.sch.t).select("x"))
    def database_schema(Q, n):
        db = shared(("Ds", n), lambda: Database("db"))
        return str(Q.from_(getattr(db, "sch").__getattr__("t") if False else Schema(n, parent=db).t).select("x"))
    def column_item_access(Q, n): return str(Q.from_(t).select(t[n]).where(t[n] == 1))      # table["name"] is the column called name, whatever the name
    def column_select(Q, n): return str(Q.from_(t).select(shared(("F", n), lambda: t.field(n))))
    def column_where(Q, n): return str(Q.from_(t).select(t.x).where(shared(("Fw", n), lambda: t.field(n) == 1)))
    def field_of_aliased_table(Q, n):
        ta = Table("t").as_("ta")
        return str(Q.from_(ta).join(u).on(ta.x == u.x).select(shared(("Fa", n), lambda: Field(n, table=ta))))
    def index_term(Q, n): return str(Q.from_(t).select(t.x).where(shared(("I", n), lambda: Index(n)) == 1))
    def select_into_table(Q, n): return str(Q.from_(t).select(t.x).into(Table(n)))
    def insert_select_table(Q, n): return str(Q.into(Table(n)).from_(t).select(t.x))
    def replaced_table(Q, n): return str(Q.from_(t).select(t.x).where(t.y == 1).join(u).on(t.x == u.x).replace_table(t, Table(n)))
    def mysql_row_alias(Q, n):
        from pypika_tortoise import MySQLQuery
        if Q is not MySQLQuery:
            return None
        return str(Q.into(t).insert(1).as_(n).on_conflict().do_update("x"))
    def join_subquery_alias(Q, n):
        sq = Q.from_(t).select(t.x).as_(n)
        return str(Q.from_(u).join(sq).on(u.x == sq.x).select(u.x, sq.x))
    def column_qualified(Q, n): return str(Q.from_(t).join(u).on(t.x == u.x).select(u.field(n)))
    def qualifier(Q, n):
        tn = Table(n)
        return str(Q.from_(tn).join(u).on(tn.x == u.x).select(tn.x).where(tn.y == 1))
    def table_alias(Q, n):
        ta = Table("t").as_(n)
        return str(Q.from_(ta).select(ta.x).where(ta.y == 1))
    # the alias of a DML target: its columns are qualified with it, so it has to be introduced next to the table (DEFINES below)
    def update_table_alias(Q, n):
        ta = _Table("t").as_(n)
        return str(Q.update(ta).set(ta.x, 1).where(ta.y == 2))
    def delete_table_alias(Q, n):
        ta = _Table("t").as_(n)
        return str(Q.from_(ta).delete().where(ta.y == 2))
    def update_join_alias(Q, n):
        from pypika_tortoise import PostgreSQLQuery, SQLLiteQuery
        if Q in (SQLLiteQuery, PostgreSQLQuery):
            return None  # (their UPDATE .. FROM emulation derives a second alias  <name>_  from the supplied one: not a verbatim emission site)
        ta = _Table("t").as_(n)
        return str(Q.update(ta).join(u).on(ta.x == u.x).set(ta.x, u.y).where(ta.y == 2))
    # tables made by the query class's factories, statements started from the table's shortcuts (they render with the class that made the table)
    def factory_table_select(Q, n): return str(Q.Table(n).select("x"))
    def factory_table_update(Q, n): return str(Q.Table(n).update().set("x", 1))
    def factory_table_insert(Q, n): return str(Q.Table(n).insert(1))
    def factory_tables_name(Q, n):
        a, b = Q.Tables(n, ("u", "ub"))
        return str(a.select(a.x)) + " ; " + str(b.select(b.y))
    def factory_tables_pair_name(Q, n):
        (a,) = Q.Tables((n, "al"))
        return str(a.select(a.x).where(a.y == 1))
    def factory_tables_pair_alias(Q, n):
        (a,) = Q.Tables(("t", n))
        return str(a.select(a.x).where(a.y == 1))
    def select_alias(Q, n): return str(Q.from_(t).select(t.x.as_(n)))
    def select_alias_groupby(Q, n):
        f = t.x.as_(n)
        return str(Q.from_(t).select(f, fn.Count("*")).groupby(f))
    def select_alias_orderby(Q, n):
        f = t.x.as_(n)
        return str(Q.from_(t).select(f).orderby(f))
    def function_alias(Q, n): return str(Q.from_(t).select(fn.Sum(t.x).as_(n)))
    def force_index(Q, n): return str(Q.from_(t).select(t.x).force_index(n))
    def use_index(Q, n): return str(Q.from_(t).select(t.x).use_index(n))
    def for_update_of(Q, n): return str(Q.from_(t).select(t.x).for_update(of=(n,)))
    def cte(Q, n):
        return str(Q.with_(Q.from_(t).select(t.x), n).from_(AliasedQuery(n)).select(AliasedQuery(n).x))
    def subquery_alias(Q, n):
        sq = Q.from_(t).select(t.x).as_(n)
        return str(Q.from_(sq).select(sq.x))
    def insert_table(Q, n): return str(Q.into(Table(n)).insert(1))
    def insert_columns(Q, n): return str(Q.into(t).columns(n).insert(1))
    def update_table(Q, n): return str(Q.update(Table(n)).set("x", 1))
    def set_target(Q, n): return str(Q.update(t).set(n, 1))
    def delete_table(Q, n): return str(Q.from_(Table(n)).delete())
    def using(Q, n): return str(Q.from_(t).join(u).using(n).select(t.x))
    def on_conflict(Q, n): return str(Q.into(t).insert(1).on_conflict(n).do_nothing())
    def do_update(Q, n): return str(Q.into(t).insert(1).on_conflict("x").do_update(n, 2))
    def orderby_str(Q, n): return str(Q.from_(t).select(t.x).orderby(n))
    def groupby_str(Q, n): return str(Q.from_(t).select(fn.Count("*")).groupby(n))
    def select_str(Q, n): return str(Q.from_(t).select(n))
    def create_table(Q, n): return render(Q, Q.create_table(n).columns(Column("x", "INT")))
    def create_column(Q, n): return render(Q, Q.create_table("t").columns(shared(("C", n), lambda: Column(n, "INT"))))
    def create_column_default(Q, n): return render(Q, Q.create_table("t").columns(shared(("Cd", n), lambda: Column(n, "INT", nullable=False, default=0))))
    def create_unique(Q, n): return render(Q, Q.create_table("t").columns(Column("x", "INT")).unique(n))
    def create_pk(Q, n): return render(Q, Q.create_table("t").columns(Column("x", "INT")).primary_key(n))
    def create_pk_column(Q, n): return render(Q, Q.create_table("t").columns(Column("x", "INT")).primary_key(shared(("Cp", n), lambda: Column(n))))
    def create_unique_column(Q, n): return render(Q, Q.create_table("t").columns(Column("x", "INT")).unique(shared(("Cu", n), lambda: Column(n))))
    def create_period(Q, n): return render(Q, Q.create_table("t").columns(Column("x", "INT")).period_for(n, "x", "x"))
    def create_period_col(Q, n): return render(Q, Q.create_table("t").columns(Column("x", "INT")).period_for("p", n, "x"))
    # CREATE TABLE .. AS (select): the select is part of the statement being rendered, whichever class built it
    def create_as_select_table(Q, n):
        from pypika_tortoise import Query as G
        return render(Q, Q.create_table("c").as_select(G.from_(Table(n)).select("x")))
    def create_as_select_column(Q, n):
        from pypika_tortoise import Query as G
        return str(Q.create_table("c").as_select(G.from_(t).select(t.field(n)).where(t.field(n) == 1)))
    def create_as_select_own(Q, n): return str(Q.create_table("c").as_select(Q.from_(Table(n)).select("x")))
    def drop_table(Q, n): return render(Q, Q.drop_table(n))
    # the same DDL through the other two render paths: str() and get_sql() without a context use the creating class's dialect
    def drop_table_str(Q, n): return str(late(Q.drop_table(n)))
    def drop_table_noctx(Q, n): return late(Q.drop_table(n)).get_sql()
    def create_table_str(Q, n): return str(late(Q.create_table(n).columns(Column("x", "INT"))))
    def create_table_noctx(Q, n): return late(Q.create_table(n).columns(Column("x", "INT"))).get_sql(None)
    def drop_table_if_exists(Q, n): return str(Q.drop_table(n).if_exists())
    def join_table_alias(Q, n):
        tn = _Table("u").as_(n)
        return str(Q.from_(t).join(tn).on(t.x == tn.x).select(t.x, tn.y))
    def left_join_schema_table(Q, n): return str(Q.from_(t).left_join(Table("u", schema=n)).on(t.x == Table("u", schema=n).x).select(t.x))
    def join_using_table(Q, n): return str(Q.from_(t).join(Table(n)).using("x").select(t.x))
    def cross_join_table(Q, n): return str(Q.from_(t).join(Table(n)).cross().select(t.x))
    def returning(Q, n):
        from pypika_tortoise import PostgreSQLQuery
        if Q is not PostgreSQLQuery:
            return None
        return str(Q.into(t).insert(1).returning(n))
    def load_into(Q, n):
        from pypika_tortoise import MySQLQuery
        if Q is not MySQLQuery:
            return None
        return str(Q.load("/f.csv").into(n))
    def setop_orderby(Q, n):
        return str(Q.from_(t).select(t.field(n)).union(Q.from_(u).select(u.field(n))).orderby(t.field(n)))

    import types

    return {k: v for k, v in locals().items() if isinstance(v, types.FunctionType) and k not in ("render", "Table", "shared", "late", "ddl_decoys")}


# sites whose name is the alias of a table that the same statement uses as a qualifier: the alias must be DEFINED, i.e. written
# (after an optional AS) directly behind the table it renames - a qualifier that no source introduces misses its definition
DEFINES = {"table_alias": "t", "join_table_alias": "u", "field_of_aliased_table": None, "update_table_alias": "t", "delete_table_alias": "t",
           "update_join_alias": "t"}


def defines(toks, table, name):
    seq = [(t["t"], t["v"]) for t in toks if t["t"] in ("id", "word")]
    for i, tv in enumerate(seq):
        if tv == ("id", table):
            rest = seq[i + 1:i + 3]
            if rest[:1] == [("id", name)] or rest == [("word", "AS"), ("id", name)]:
                return True
    return False


# MySQL has no conflict target: on_conflict() fields are legitimately not part of INSERT IGNORE / ON DUPLICATE KEY UPDATE
NO_EMISSION = {("mysql", "on_conflict")}


def qid(n):
    return '"' + n.replace('"', '""') + '"'


# SQLite as a second judge: the statement must prepare against a schema whose objects carry exactly the supplied name.
# site -> DDL (given the reference-quoted name) on top of  t(x, y), u(x, y)
def _col(t, qn, n):
    return ['CREATE TABLE "%s" ("x", "y"%s)' % (t, "" if n in ("x", "y") else ", " + qn)]


ENGINE_SCHEMA = {
    "from_table": lambda qn, n: ["T", "U", 'CREATE TABLE IF NOT EXISTS %s ("x", "y")' % qn],
    "from_table_star": lambda qn, n: ["T", "U", 'CREATE TABLE IF NOT EXISTS %s ("x", "y")' % qn],
    "join_table": lambda qn, n: ["T", "U", 'CREATE TABLE IF NOT EXISTS %s ("x", "y")' % qn],
    "qualifier": lambda qn, n: ["T", "U", 'CREATE TABLE IF NOT EXISTS %s ("x", "y")' % qn],
    "insert_table": lambda qn, n: ["T", "U", 'CREATE TABLE IF NOT EXISTS %s ("x")' % qn],
    "update_table": lambda qn, n: ["T", "U", 'CREATE TABLE IF NOT EXISTS %s ("x", "y")' % qn],
    "delete_table": lambda qn, n: ["T", "U", 'CREATE TABLE IF NOT EXISTS %s ("x", "y")' % qn],
    "drop_table": lambda qn, n: ["T", "U", 'CREATE TABLE IF NOT EXISTS %s ("x", "y")' % qn],
    "select_into_table": None, "insert_select_table": lambda qn, n: ["T", "U", 'CREATE TABLE IF NOT EXISTS %s ("x")' % qn],
    "replaced_table": lambda qn, n: ["T", "U", 'CREATE TABLE IF NOT EXISTS %s ("x", "y")' % qn],
    "column_select": lambda qn, n: _col("t", qn, n) + ["U"], "column_where": lambda qn, n: _col("t", qn, n) + ["U"],
    "column_qualified": lambda qn, n: ["T"] + _col("u", qn, n), "insert_columns": lambda qn, n: _col("t", qn, n) + ["U"],
    "set_target": lambda qn, n: _col("t", qn, n) + ["U"], "orderby_str": lambda qn, n: _col("t", qn, n) + ["U"],
    "groupby_str": lambda qn, n: _col("t", qn, n) + ["U"], "select_str": lambda qn, n: _col("t", qn, n) + ["U"],
    "using": lambda qn, n: _col("t", qn, n) + _col("u", qn, n), "field_of_aliased_table": lambda qn, n: _col("t", qn, n) + ["U"],
    "table_alias": lambda qn, n: ["T", "U"], "select_alias": lambda qn, n: ["T", "U"], "select_alias_groupby": lambda qn, n: ["T", "U"],
    "select_alias_orderby": lambda qn, n: ["T", "U"], "function_alias": lambda qn, n: ["T", "U"], "subquery_alias": lambda qn, n: ["T", "U"],
    "join_subquery_alias": lambda qn, n: ["T", "U"], "create_table": lambda qn, n: [], "create_column": lambda qn, n: [],
}


def engine_prepares(site, n, text):
    """None when the site is not judged by the engine, else "" (prepared) or SQLite's message"""
    import sqlite3

    mk = ENGINE_SCHEMA.get(site)
    if mk is None or "\0" in n:
        return None
    con = sqlite3.connect(":memory:")
    try:
        for ddl in mk(qid(n), n):
            ddl = {"T": 'CREATE TABLE IF NOT EXISTS "t" ("x", "y")', "U": 'CREATE TABLE IF NOT EXISTS "u" ("x", "y")'}.get(ddl, ddl)
            try:
                con.execute(ddl)
            except sqlite3.Error:
                return None  # (the name cannot be given to a schema object of this kind, e.g. a table called sqlite_x: nothing to judge)
        try:
            con.execute("EXPLAIN " + text)
            return ""
        except sqlite3.Error as ex:
            return str(ex)
    finally:
        con.close()


def names(tier, rnd):
    out = ["".join(p) for n in (1, 2) for p in itertools.product(ALPHABET, repeat=n)]
    # long names (longer than the 30 / 63 / 64 / 128 character limits of the engines: the builder passes names through, it does not shorten them)
    out += ["n" + "0123456789" * 4, "same_first_thirty_characters_x_1", "same_first_thirty_characters_x_2", "é" * 35, "w" * 70, "L" + "o" * 130 + "ng"]
    # names that are attributes / methods of the table and term classes
    out += ["star", "alias", "field", "get_sql", "as_", "table", "name", "select", "join", "fields_", "tables_", "is_aggregate", "_table_name", "__class__"]
    out += KEYWORDS + ["My Col", 'a"b"c', "x``y", "a.b.c", "ü ñ", "tab\tname", "x'--", "a]b[c"]
    # names that are SQL punctuation or syntax when left bare
    out += ["{0}", "{}", "x{collate}y", "{criterion}", "{table}", "%(a)s", "{{", "*", "%", "?", "(", ")", ",", ";", "--", "/*", "*/", "=", "t.*", "$1", "%s", ":p", "@v", "#", "x y", "NULL", "1"]
    if tier != "quick":
        out += ["".join(p) for p in itertools.product(['"', "`", "a", ".", " ", "'"], repeat=3)]
    for _ in range(60 if tier == "quick" else 1500):
        out.append("".join(rnd.choice(ALPHABET + [chr(rnd.randint(0xa1, 0x2fff)), chr(rnd.randint(0x10000, 0x1ffff))])
                           for _ in range(rnd.randint(1, 10))))
    # names that are only spaces, or start with a digit, are legitimate quoted identifiers too
    return [n for n in dict.fromkeys(out) if n != MARK]


def char_classes(s):
    return sorted({CLASS.get(c, "nonascii" if ord(c) > 127 else "upper" if c.isupper() else "digit" if c.isdigit() else "plain")
                   for c in s} - {"plain"}) or ["plain"]


def run(tier: str) -> int:
    rep = core.Report("C07", tier)
    rnd = random.Random(core.seed())
    r = tlc.run("MC_Lex", f"CONSTANT MaxLen = {2 if tier == 'quick' else 3}\nINIT Init\nNEXT Next\nINVARIANT Lit\nINVARIANT Ident\nINVARIANT Emb\nINVARIANT EmbI\n",
                workers=16, heap="8g", timeout=3000)
    rep.add_tlc(r)
    if r.violation or not r.ok:
        raise core.MachineryError(f"intended identifier encoder does not round-trip (spec bug): {r.violation}")
    st = sites()
    qcls = core.query_classes()
    nm = names(tier, rnd)
    events, meta = [], []
    engine = [0]
    for d, Q in qcls.items():
        ld = core.lex_dialect(d)
        q = ord("`") if d == "mysql" else ord('"')
        for sname, f in st.items():
            try:
                btext = f(Q, MARK)
            except Exception as ex:
                raise core.MachineryError(f"benign statement failed at {sname}/{d}: {ex!r}")
            if btext is None:
                continue
            btoks = lexer.lex(btext, ld)
            if (d, sname) in NO_EMISSION:
                continue
            if any(t["t"] == "word" and t["v"] == MARK.upper() for t in btoks) or \
                    not any(t["t"] == "id" and t["v"] == MARK for t in btoks):
                # the site writes the name as a bare word even when it is harmless: every name that is not a
                # plain lower-case word is then damaged, one finding for the site
                rep.discrepancy([[d, sname, "unquoted-site"]], {"dialect": d, "site": sname, "name": MARK, "text": btext, "fault": "unquoted"},
                                what="the site emits the name as a bare word (definition and reference written differently)")
                continue
            if DEFINES.get(sname) and any(t["t"] == "id" and t["v"] == MARK and i and btoks[i - 1]["v"] == "." or
                                          (t["t"] == "id" and t["v"] == MARK and i + 1 < len(btoks) and btoks[i + 1]["v"] == ".") for i, t in enumerate(btoks)) \
                    and not defines(btoks, DEFINES[sname], MARK):
                rep.discrepancy([[d, sname, "alias-never-defined"]], {"dialect": d, "site": sname, "name": MARK, "text": btext, "fault": "undefined-alias"},
                                what="the alias qualifies columns but is not introduced next to its table")
                continue
            for n in nm:
                if n == "*" and sname in ("select_str", "returning"):
                    continue  # select("*") / returning("*") mean "all columns" by contract, not a column called *
                try:
                    text = f(Q, n)
                except Exception as ex:
                    rep.discrepancy([[d, sname, "raises:" + type(ex).__name__]], {"dialect": d, "site": sname, "name": n},
                                    what="a legitimate name makes the builder raise")
                    continue
                ev = lit.make_event(len(events), d, text, btext, "id", MARK, [lit.id_alt(n, [q])], sample_lex=(len(events) % 101 == 0))
                events.append(ev)
                meta.append((d, sname, n, text))
                if d == "sqlite":
                    err = engine_prepares(sname, n, text)
                    if err is not None:
                        engine[0] += 1
                    if err:
                        rep.discrepancy([[d, sname, "engine", c] for c in char_classes(n)], {"dialect": d, "site": sname, "name": n, "text": text, "engine": err},
                                        what="SQLite does not prepare the statement against a schema whose objects carry the supplied name")
    # second pass: the name-bearing objects (tables with their schemas, fields, index terms) are built ONCE and rendered under
    # two dialects with different identifier quotes in a row; the second text is judged like any other
    special = ["My Col", 'a"b', "x`y", "a.b", "select", "é x"] + (nm[::37] if tier != "quick" else [])
    SHARING[0] = True
    try:
        for d1, d2 in (("generic", "mysql"), ("mysql", "postgresql"), ("postgresql", "mysql"), ("mysql", "oracle")):
            Q1, Q2 = qcls[d1], qcls[d2]
            q2 = ord("`") if d2 == "mysql" else ord('"')
            for sname, f in st.items():
                if (d2, sname) in NO_EMISSION:
                    continue
                SHARING[0] = False
                try:
                    btext = f(Q2, MARK)
                finally:
                    SHARING[0] = True
                b2 = lexer.lex(btext, core.lex_dialect(d2)) if btext is not None else []
                if btext is None or not any(t["t"] == "id" and t["v"] == MARK for t in b2) or any(t["t"] == "word" and t["v"] == MARK.upper() for t in b2):
                    continue  # (a site that writes the name bare is one finding of the first pass)
                for n in special:
                    if n == "*" and sname in ("select_str", "returning"):
                        continue  # (as in the first pass: select("*") / returning("*") mean "all columns" by contract)
                    SHARE.clear()
                    try:
                        if f(Q1, n) is None:
                            continue
                        text = f(Q2, n)
                    except Exception:  # noqa  (raising names are reported by the first pass)
                        continue
                    ev = lit.make_event(len(events), d2, text, btext, "id", MARK, [lit.id_alt(n, [q2])])
                    events.append(ev)
                    meta.append((d2, sname, n, text, "after-" + d1))
    finally:
        SHARING[0] = False
        SHARE.clear()
    bad = lit.judge(events, rep)
    rep.traces = len(events)
    rep.evaluations = len(events)
    rep.distinct = {(m[1], m[2]) for m in meta}
    for tid in sorted(bad, key=lambda t: (len(char_classes(meta[t][2])), len(meta[t][2]))):
        d, sname, n, text = meta[tid][:4]
        after = meta[tid][4] if len(meta[tid]) > 4 else ""
        rep.discrepancy([[d, sname, c] for c in char_classes(n)] + ([[d, sname, c, after] for c in char_classes(n)] if after else []),
                        {"dialect": d, "site": sname, "name": n, "text": text, "fault": bad[tid]["fault"], "same_objects_rendered_before_under": after[6:]},
                        what="name is not one correctly quoted identifier token denoting the supplied name")
    for k in (0, len(meta) // 2, len(meta) - 1):
        d, sname, n, text = meta[k][:4]
        rep.sample({"dialect": d, "site": sname, "name": n, "text": text, "verdict": "ok" if k not in bad else bad[k]["fault"]})
    rep.rule = (f"{len(nm)} names (all strings of length <=2 over a {len(ALPHABET)}-class alphabet, keywords, mixed case, seeded Unicode) at "
                f"{len(st)} emission sites x 6 dialects; TLC lexes the real text; distinct = (site, name); second pass: the same name-bearing objects rendered under "
                "two dialects with different quote characters in a row (4 ordered dialect pairs x sites x special names)")
    rep.exhaustive = True
    rep.extra["sites"] = sorted(st)
    rep.extra["sqlite_prepared_statements"] = engine[0]
    rep.assumptions = ["identifier grammar per dialect as written in PT_Lex (double quote, backtick for MySQL, doubling as escape)"]
    return rep.finish()


def replay(path: str) -> int:
    ex = json.load(open(path))["example"]
    print(json.dumps(ex, indent=1, ensure_ascii=False))
    f = sites()[ex["site"]]
    print("now renders:", f(core.query_classes()[ex["dialect"]], ex["name"]))
    return 0
