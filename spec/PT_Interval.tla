---------------------------- MODULE PT_Interval ----------------------------
(***************************************************************************)
(* Interval literals (property C18).                                        *)
(*  Comp   : a duration as seven components <<Y, Mo, D, H, Mi, S, U>>, the  *)
(*           leading non-zero one possibly negative; or quarters / weeks    *)
(*  Enc    : the INTENDED encoder: span from the largest to the smallest    *)
(*           non-zero component, unit designator LARGEST[_SMALLEST], sign   *)
(*           of the leading component, dialect template                     *)
(*  Dec    : the reader of a literal: the unit designator fixes the field   *)
(*           layout  Y-M-D H:M:S.U  restricted to its span                  *)
(*  RoundTrip : Dec(Enc(c, d), d) = Norm(c)                                 *)
(* Everything is on code points (TLC cannot look inside strings).           *)
(***************************************************************************)
EXTENDS Naturals, Integers, Sequences, FiniteSets, TLC

Label == << <<89, 69, 65, 82>>,
             <<77, 79, 78, 84, 72>>,
             <<68, 65, 89>>,
             <<72, 79, 85, 82>>,
             <<77, 73, 78, 85, 84, 69>>,
             <<83, 69, 67, 79, 78, 68>>,
             <<77, 73, 67, 82, 79, 83, 69, 67, 79, 78, 68>>,
             <<81, 85, 65, 82, 84, 69, 82>>,
             <<87, 69, 69, 75>> >>
\* separator that FOLLOWS field i (1..6) in the full layout  Y-M-D H:M:S.U
SepAfter == << 45, 45, 32, 58, 58, 46 >>
UNDERSCORE == 95   QUOTE == 39   SPACE == 32   MINUS == 45
KW_INTERVAL == <<73, 78, 84, 69, 82, 86, 65, 76>>

\* dialect -> template: "in"  = INTERVAL '{expr} {unit}' ; "out" = INTERVAL '{expr}' {unit}
Template(d) == IF d \in {"mysql", "oracle"} THEN "out" ELSE "in"

RECURSIVE NatChars(_)
NatChars(n) == IF n < 10 THEN <<48 + n>> ELSE NatChars(n \div 10) \o <<48 + (n % 10)>>

Abs(x) == IF x < 0 THEN 0 - x ELSE x
NZ(c) == {i \in 1..7 : c[i] # 0}
Min(S) == CHOOSE x \in S : \A y \in S : x <= y
Max(S) == CHOOSE x \in S : \A y \in S : x >= y

UnitChars(l, s) == IF l = s THEN Label[l] ELSE Label[l] \o <<UNDERSCORE>> \o Label[s]

(***************************************************************************)
(* What a literal denotes: [neg, f] with f the seven absolute values, or    *)
(* [neg, q] / [neg, w] for quarter / week intervals                         *)
(***************************************************************************)
Norm(c) == IF NZ(c) = {} THEN [k |-> "ymd", neg |-> FALSE, f |-> [i \in 1..7 |-> 0]]
           ELSE [k |-> "ymd", neg |-> c[Min(NZ(c))] < 0, f |-> [i \in 1..7 |-> Abs(c[i])]]

RECURSIVE EncFields(_, _, _)
EncFields(c, i, s) == NatChars(Abs(c[i])) \o (IF i = s THEN <<>> ELSE <<SepAfter[i]>> \o EncFields(c, i + 1, s))

EncExprUnit(c) ==
    IF NZ(c) = {} THEN [e |-> <<48>>, u |-> Label[3]]
    ELSE LET l == Min(NZ(c))  s == Max(NZ(c)) IN
         [e |-> (IF c[l] < 0 THEN <<MINUS>> ELSE <<>>) \o EncFields(c, l, s), u |-> UnitChars(l, s)]

Wrap(eu, d) ==
    IF Template(d) = "in" THEN KW_INTERVAL \o <<SPACE, QUOTE>> \o eu.e \o <<SPACE>> \o eu.u \o <<QUOTE>>
    ELSE KW_INTERVAL \o <<SPACE, QUOTE>> \o eu.e \o <<QUOTE, SPACE>> \o eu.u

Enc(c, d) == Wrap(EncExprUnit(c), d)
EncSingle(v, unitIdx, d) ==
    Wrap([e |-> (IF v < 0 THEN <<MINUS>> ELSE <<>>) \o NatChars(Abs(v)), u |-> Label[unitIdx]], d)

(***************************************************************************)
(* Decoder                                                                  *)
(***************************************************************************)
IsDigit(ch) == ch >= 48 /\ ch <= 57
RECURSIVE ReadNat(_, _, _, _)
\* reads digits from position p; returns [v, p, n] (n = number of digits read)
ReadNat(s, p, acc, n) ==
    IF p <= Len(s) /\ IsDigit(s[p]) /\ n < 9 THEN ReadNat(s, p + 1, acc * 10 + (s[p] - 48), n + 1)
    ELSE [v |-> acc, p |-> p, n |-> n]

Index(s, ch, from) == LET I == {i \in from..Len(s) : s[i] = ch} IN IF I = {} THEN 0 ELSE Min(I)
LastIndex(s, ch) == LET I == {i \in 1..Len(s) : s[i] = ch} IN IF I = {} THEN 0 ELSE Max(I)

Bad(why) == [ok |-> FALSE, why |-> why]

\* split the literal into expression and unit according to the dialect template
Split(chars, d) ==
    LET n == Len(KW_INTERVAL) IN
    IF ~(Len(chars) > n + 2 /\ SubSeq(chars, 1, n) = KW_INTERVAL /\ chars[n + 1] = SPACE /\ chars[n + 2] = QUOTE)
    THEN Bad("template")
    ELSE LET q2 == Index(chars, QUOTE, n + 3) IN
    IF q2 = 0 THEN Bad("template")
    ELSE LET inner == SubSeq(chars, n + 3, q2 - 1)  rest == SubSeq(chars, q2 + 1, Len(chars)) IN
    IF Template(d) = "in" THEN
        (IF rest # <<>> THEN Bad("template")
         ELSE LET sp == LastIndex(inner, SPACE) IN
              IF sp <= 1 \/ sp = Len(inner) THEN Bad("template")
              ELSE [ok |-> TRUE, e |-> SubSeq(inner, 1, sp - 1), u |-> SubSeq(inner, sp + 1, Len(inner))])
    ELSE
        (IF Len(rest) < 2 \/ rest[1] # SPACE \/ inner = <<>> THEN Bad("template")
         ELSE [ok |-> TRUE, e |-> inner, u |-> Tail(rest)])

UnitOf(u) ==
    LET P == {<<l, s>> \in (1..9) \X (1..9) : (l = s \/ (l < s /\ s <= 7)) /\ UnitChars(l, s) = u} IN
    IF P = {} THEN <<0, 0>> ELSE CHOOSE x \in P : TRUE

RECURSIVE DecFields(_, _, _, _, _)
\* reads fields i..s from position p; acc is the function built so far
DecFields(e, p, i, s, acc) ==
    LET r == ReadNat(e, p, 0, 0) IN
    IF r.n = 0 THEN Bad("field")
    ELSE LET acc2 == [acc EXCEPT ![i] = r.v] IN
         IF i = s THEN (IF r.p = Len(e) + 1 THEN [ok |-> TRUE, f |-> acc2] ELSE Bad("trailing"))
         ELSE IF r.p <= Len(e) /\ e[r.p] = SepAfter[i] THEN DecFields(e, r.p + 1, i + 1, s, acc2)
         ELSE Bad("separator")

Dec(chars, d) ==
    LET sp == Split(chars, d) IN
    IF ~sp.ok THEN sp
    ELSE LET un == UnitOf(sp.u) IN
    IF un[1] = 0 THEN Bad("unit")
    ELSE LET neg == sp.e # <<>> /\ sp.e[1] = MINUS
             body == IF neg THEN Tail(sp.e) ELSE sp.e IN
         IF un[1] > 7 THEN
            LET r == ReadNat(body, 1, 0, 0) IN
            IF r.n > 0 /\ r.p = Len(body) + 1
            THEN [ok |-> TRUE, v |-> [k |-> (IF un[1] = 8 THEN "quarter" ELSE "week"), neg |-> neg /\ r.v # 0, n |-> r.v]]
            ELSE Bad("field")
         ELSE LET fs == DecFields(body, 1, un[1], un[2], [i \in 1..7 |-> 0]) IN
              IF ~fs.ok THEN fs
              ELSE [ok |-> TRUE, v |-> [k |-> "ymd", neg |-> neg /\ (\E i \in 1..7 : fs.f[i] # 0), f |-> fs.f]]

RoundTrip(c, d) == LET r == Dec(Enc(c, d), d) IN r.ok /\ r.v = Norm(c)
RoundTripSingle(v, unitIdx, d) ==
    LET r == Dec(EncSingle(v, unitIdx, d), d) IN
    r.ok /\ r.v = [k |-> (IF unitIdx = 8 THEN "quarter" ELSE "week"), neg |-> v < 0, n |-> Abs(v)]

(***************************************************************************)
(* Judging a real literal: which component moved (signature)                *)
(***************************************************************************)
PatClass(n) == IF n = 0 THEN "zero" ELSE IF n % 10 = 0 THEN "ends0" ELSE IF n >= 10 THEN "multi" ELSE "digit"

Disc(c, chars, d) ==
    LET r == Dec(chars, d)  want == Norm(c)
        l == IF NZ(c) = {} THEN 3 ELSE Min(NZ(c))
        s == IF NZ(c) = {} THEN 3 ELSE Max(NZ(c)) IN
    IF ~r.ok THEN {<<"unreadable", r.why, UnitChars(l, s)>>}
    ELSE IF r.v.k # "ymd" THEN {<<"kind", r.v.k, UnitChars(l, s)>>}
    ELSE    {<<"field", UnitChars(l, s), Label[i], PatClass(want.f[i])>> : i \in {j \in 1..7 : r.v.f[j] # want.f[j]}}
       \cup (IF r.v.neg # want.neg THEN {<<"sign", UnitChars(l, s)>>} ELSE {})
=============================================================================
