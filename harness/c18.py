"""C18 - interval literals encode exactly the requested duration.

spec:  PT_Interval (intended encoder Enc, field-layout decoder Dec, RoundTrip), MC_Interval (design check over Vals^7 x sign)
judge: J_C18 (decodes the characters REAL Interval.get_sql emitted, compares with the constructor arguments)
"""
from __future__ import annotations

import itertools
import json
import random

from harness import core, tlc

UNITS = ["years", "months", "days", "hours", "minutes", "seconds", "microseconds"]
TEMPLATE_CLASS = {"generic": "in", "sqlite": "in", "mssql": "in", "postgresql": "in", "mysql": "out", "oracle": "out"}
REP = {"in": "postgresql", "out": "mysql"}


def tuples(vals, tier, rnd):
    allv = list(itertools.product(vals, repeat=7))
    return allv


def observe(cases):
    """cases: list of (kind, tuple) -> events, one per distinct (text, template class)"""
    from pypika_tortoise import Interval

    ctxs = core.contexts()
    events = []
    for kind, c in cases:
        if kind == "ymd":
            iv = Interval(**dict(zip(UNITS, c)))
        elif kind == "quarter":
            iv = Interval(quarters=c[0])
        else:
            iv = Interval(weeks=c[0])
        seen = {}
        for d, ctx in ctxs.items():
            text = iv.get_sql(ctx)
            key = (text, TEMPLATE_CLASS[d])
            seen.setdefault(key, []).append(d)
        for (text, cls), ds in seen.items():
            events.append({"tid": len(events), "kind": kind, "c": list(c), "d": REP[cls] if REP[cls] in ds else ds[0],
                           "chars": [ord(ch) for ch in text], "text": text, "ctxs": ds})
    return events


def run(tier: str) -> int:
    rep = core.Report("C18", tier)
    rnd = random.Random(core.seed())
    vals = [0, 1, 10, 105] if tier == "quick" else [0, 1, 5, 10, 20, 100, 105]
    # 1. design level: the intended encoder round-trips over the same domain
    cfg = "CONSTANT Vals = {%s}\nINIT Init\nNEXT Next\nINVARIANT RoundTripAll\nINVARIANT SingleAll\n" % ",".join(map(str, vals))
    r = tlc.run("MC_Interval", cfg, workers=16, heap="8g", timeout=3000)
    rep.add_tlc(r)
    if r.violation or not r.ok:
        raise core.MachineryError(f"intended interval encoder does not round-trip: {r.violation}\n{r.raw_tail[-1500:]}")
    # 2. the same domain through the real encoder
    cases = []
    for c in itertools.product(vals, repeat=7):
        cases.append(("ymd", c))
        nz = [i for i, v in enumerate(c) if v]
        if nz:
            neg = list(c)
            neg[nz[0]] = -neg[nz[0]]
            cases.append(("ymd", tuple(neg)))
    for v in sorted(set(vals) | {2, 7, 13}):
        for s in (1, -1):
            if v:
                cases.append(("quarter", (s * v,)))
                cases.append(("week", (s * v,)))
    # seeded values beyond the digit-pattern set
    for _ in range(2000 if tier == "quick" else 20000):
        c = [0] * 7
        for i in rnd.sample(range(7), rnd.randint(1, 7)):
            c[i] = rnd.choice([rnd.randint(1, 9), rnd.randint(10, 99) * 10, rnd.randint(100, 99999), 10 ** rnd.randint(1, 5)])
        if rnd.random() < 0.3:
            k = min(i for i in range(7) if c[i])
            c[k] = -c[k]
        cases.append(("ymd", tuple(c)))
    events = observe(cases)
    slim = [{k: e[k] for k in ("tid", "kind", "c", "d", "chars")} for e in events]
    results = tlc.judge_shards("J_C18", "INIT Init\nNEXT Next\n", slim, shard=max(3000, len(slim) // 16 + 1))
    rep.add_tlc(results)
    judged = sum(max(r.distinct - 1, 0) for r in results)
    if judged != len(events):
        raise core.MachineryError(f"judge consumed {judged} of {len(events)} events")
    bad = {}
    for r in results:
        for v in r.json_tagged("V"):
            bad[v["tid"]] = v
    rep.traces = len(events)
    rep.evaluations = sum(len(e["ctxs"]) for e in events)
    rep.distinct = {(e["kind"], tuple(e["c"])) for e in events}
    for tid in sorted(bad, key=lambda t: (len(bad[t]["disc"]), sum(abs(x) for x in events[t]["c"]))):
        e = events[tid]
        sigs = [_sig(s) for s in bad[tid]["disc"]]
        rep.discrepancy(sorted(sigs), {"kind": e["kind"], "c": e["c"], "text": e["text"], "ctxs": e["ctxs"]},
                        what="literal does not denote the supplied components")
    for e in events[:: max(1, len(events) // 5)]:
        rep.sample({"args": e["c"], "kind": e["kind"], "text": e["text"], "ctxs": e["ctxs"], "verdict": "decodes to args" if e["tid"] not in bad else "discrepancy"})
    rep.rule = (f"all 7-tuples over {vals} with the leading non-zero component of either sign, quarters and weeks, plus seeded "
                "multi-digit tuples; each through the real Interval.get_sql under 6 contexts; TLC decodes the emitted characters "
                "with PT_Interval!Dec; distinct = distinct argument tuples")
    rep.exhaustive = True
    rep.assumptions = ["components read as integer fields per the unit designator (not MySQL fractional-second padding)"]
    return rep.finish()


def _sig(s):
    def dec(x):
        return "".join(map(chr, x)) if isinstance(x, list) else x
    return [dec(x) for x in s]


def replay(path: str) -> int:
    from pypika_tortoise import Interval

    ex = json.load(open(path))["example"]
    kw = dict(zip(UNITS, ex["c"])) if ex["kind"] == "ymd" else {ex["kind"] + "s": ex["c"][0]}
    for d, ctx in core.contexts().items():
        print(d, Interval(**kw).get_sql(ctx))
    print("arguments:", kw)
    return 0
