------------------------------- MODULE MC_C04 -------------------------------
(* Generator for C04: statements of every kind with pairwise distinct       *)
(* values in 1..MaxCalls clauses at once (fresh values per call), to be     *)
(* embedded at every nesting position by the executor.                      *)
EXTENDS PT_Builder, Json
CONSTANTS MaxCalls
Fld(s, c) == [k |-> "fld", src |-> s, n |-> c]
Cmp(l, r) == [k |-> "bin", op |-> "=", l |-> l, r |-> r]
Gt(l, r) == [k |-> "bin", op |-> ">", l |-> l, r |-> r]
WithAl(t, a) == [x \in DOMAIN t \cup {"al"} |-> IF x = "al" THEN a ELSE t[x]]
NumV(k) == [k |-> "num", n |-> ToString(100 + k)]
StrV(k) == [k |-> "str", n |-> "s" \o ToString(100 + k)]
NegV(k) == [k |-> "num", n |-> "-" \o ToString(100 + k)]
\* floats in both notations Python prints: 101.5 and 1.02e-07 (written 102e-09 here; the executor passes float(n))
FltV(k) == [k |-> "flt", n |-> ToString(100 + k) \o (IF k % 2 = 0 THEN "e-09" ELSE ".5")]
BoolV(k) == [k |-> "bool", v |-> (k % 2 = 0)]
ArrV(k) == [k |-> "arr", items |-> <<NumV(k), NumV(k + 1)>>]
ArrN(k) == [k |-> "arrn", items |-> <<NumV(k), NumV(k + 1)>>]     \* the executor puts a None between the two items
Kinds == {"select", "insert", "upsert", "update", "delete"}
\* further value-bearing term classes the executor builds by name from a list of fresh constants: <<class, arity, criterion?>>
CONSTANT VExt
VTerm(c, nv) == [k |-> "vext", cls |-> c[1], vals |-> [i \in 1..c[2] |-> IF i % 3 = 1 THEN NumV(nv + i - 1) ELSE IF i % 3 = 2 THEN StrV(nv + i - 1) ELSE FltV(nv + i - 1)]]

\* value-bearing calls using fresh values nv, nv+1, nv+2 ; each entry <<call, values used>>
Pool(kind, nv) ==
    (IF kind = "select" THEN
       { <<[m |-> "select", terms |-> <<NumV(nv)>>], 1>>,
         <<[m |-> "select", terms |-> <<WithAl([k |-> "bin", op |-> "+", l |-> Fld("T1", "b"), r |-> NumV(nv)], "ala")>>], 1>>,
         <<[m |-> "select", terms |-> <<[k |-> "case", w |-> Cmp(Fld("T1", "b"), NumV(nv)), t |-> StrV(nv + 1), e |-> NumV(nv + 2)]>>], 3>>,
         <<[m |-> "select", terms |-> <<[k |-> "call", f |-> "COALESCE", args |-> <<Fld("T1", "b"), StrV(nv)>>]>>], 1>>,
         <<[m |-> "select", terms |-> <<ArrV(nv)>>], 2>>,
         <<[m |-> "select", terms |-> <<WithAl(ArrV(nv), "alz")>>], 2>>,
         <<[m |-> "select", terms |-> <<ArrN(nv)>>], 2>>,
         <<[m |-> "where", crit |-> Cmp(Fld("T1", "c"), ArrN(nv))], 2>>,
         \* ORDER BY / GROUP BY the aliased term that the select list (maybe) defines: the alias is written, the term's constants are not
         <<[m |-> "orderby", terms |-> <<WithAl([k |-> "bin", op |-> "+", l |-> Fld("T1", "b"), r |-> NumV(nv)], "ala")>>, dir |-> "DESC"], 1>>,
         <<[m |-> "groupby", terms |-> <<WithAl([k |-> "bin", op |-> "+", l |-> Fld("T1", "b"), r |-> NumV(nv)], "ala")>>], 1>>,
         <<[m |-> "select", terms |-> <<WithAl(StrV(nv), "aly"), WithAl(NegV(nv + 1), "alx")>>], 2>>,
         \* a constant exempt from parameterisation (allow_parametrize=False) beside an ordinary one: inline in both forms, in no value list
         <<[m |-> "select", terms |-> <<WithAl([k |-> "noparam", n |-> "77"], "aln"), NumV(nv), [k |-> "noparam", n |-> "exempt"]>>], 1>>,
         <<[m |-> "select", terms |-> <<[k |-> "call", f |-> "SUM", args |-> <<[k |-> "bin", op |-> "*", l |-> Fld("T1", "b"), r |-> FltV(nv)]>>]>>], 1>>,
         <<[m |-> "groupby", terms |-> <<WithAl([k |-> "bin", op |-> "+", l |-> Fld("T1", "b"), r |-> NumV(nv)], "alg")>>], 1>>,
         <<[m |-> "having", crit |-> Gt([k |-> "call", f |-> "SUM", args |-> <<Fld("T1", "b")>>], NumV(nv))], 1>>,
         <<[m |-> "join", item |-> "T2", how |-> "", kind |-> "on",
            crit |-> [k |-> "bin", op |-> "AND", l |-> Cmp(Fld("T1", "a"), Fld("T2", "a")), r |-> Cmp(Fld("T2", "b"), StrV(nv))], cols |-> <<>>], 1>>,
         <<[m |-> "orderby", terms |-> <<[k |-> "bin", op |-> "+", l |-> Fld("T1", "b"), r |-> NumV(nv)]>>, dir |-> ""], 1>> }
       \cup { <<[m |-> "select", terms |-> <<VTerm(c, nv)>>], c[2]>> : c \in VExt }
       \cup { <<[m |-> "having", crit |-> Gt(VTerm(c, nv), NumV(nv + c[2]))], c[2] + 1>> : c \in {x \in VExt : x[1] \in {"AggFilter", "AggFilter2", "CountFilter"}} }
     ELSE {})
    \cup (IF kind \in {"select", "update", "delete"} THEN
       { <<[m |-> "where", crit |-> VTerm(c, nv)], c[2]>> : c \in {x \in VExt : x[3]} } \cup
       { <<[m |-> "where", crit |-> Cmp(Fld("T1", "b"), StrV(nv))], 1>>,
         <<[m |-> "where", crit |-> [k |-> "in", a |-> Fld("T1", "b"), items |-> <<NumV(nv), NegV(nv + 1)>>]], 2>>,
         <<[m |-> "where", crit |-> [k |-> "between", a |-> Fld("T1", "b"), lo |-> NumV(nv), hi |-> FltV(nv + 1)]], 2>>,
         <<[m |-> "where", crit |-> Cmp(Fld("T1", "c"), BoolV(nv))], 1>>,
         \* the SAME value twice, and values that compare equal in Python without being the same datum (1, TRUE, 1.0): one placeholder and one list entry each
         <<[m |-> "where", crit |-> [k |-> "bin", op |-> "AND", l |-> Cmp(Fld("T1", "b"), NumV(nv)), r |-> Cmp(Fld("T1", "c"), NumV(nv))]], 1>>,
         <<[m |-> "where", crit |-> [k |-> "bin", op |-> "AND", l |-> Cmp(Fld("T1", "a"), [k |-> "num", n |-> "1"]),
                                       r |-> [k |-> "bin", op |-> "AND", l |-> Cmp(Fld("T1", "c"), [k |-> "bool", v |-> TRUE]),
                                              r |-> [k |-> "bin", op |-> "AND", l |-> Cmp(Fld("T1", "b"), [k |-> "flt", n |-> "1.0"]), r |-> Cmp(Fld("T1", "b"), NumV(nv))]]]], 1>>,
         \* a constant in EVERY operand slot, subject included (the value list has to follow the text left to right)
         <<[m |-> "where", crit |-> [k |-> "between", a |-> [k |-> "bin", op |-> "+", l |-> Fld("T1", "b"), r |-> NumV(nv)], lo |-> NumV(nv + 1), hi |-> NumV(nv + 2)]], 3>>,
         <<[m |-> "where", crit |-> [k |-> "in", a |-> [k |-> "bin", op |-> "+", l |-> Fld("T1", "b"), r |-> NumV(nv)], items |-> <<NumV(nv + 1), StrV(nv + 2)>>]], 3>>,
         <<[m |-> "where", crit |-> [k |-> "bin", op |-> "=", l |-> [k |-> "bin", op |-> "-", l |-> NumV(nv), r |-> Fld("T1", "b")],
                                       r |-> [k |-> "call", f |-> "COALESCE", args |-> <<Fld("T1", "c"), NumV(nv + 1), StrV(nv + 2)>>]]], 3>>,
         <<[m |-> "where", crit |-> [k |-> "not", a |-> [k |-> "isnull", a |-> [k |-> "bin", op |-> "*", l |-> NumV(nv), r |-> Fld("T1", "b")]]]], 1>>,
         <<[m |-> "limit", n |-> 100 + nv], 1>>, <<[m |-> "offset", n |-> 100 + nv], 1>> }
     ELSE {})
    \cup (IF kind \in {"insert", "upsert"} THEN
       { <<[m |-> "insert", row |-> <<NumV(nv), StrV(nv + 1)>>], 2>>, <<[m |-> "insert", row |-> <<NegV(nv), BoolV(nv + 1)>>], 2>> } ELSE {})
    \cup (IF kind = "upsert" THEN
       { <<[m |-> "do_update", col |-> "b", val |-> StrV(nv)], 1>>, <<[m |-> "where", crit |-> Cmp(Fld("T1", "a"), NumV(nv))], 1>> } ELSE {})
    \cup (IF kind = "update" THEN
       { <<[m |-> "set", col |-> "b", val |-> StrV(nv)], 1>>, <<[m |-> "set", col |-> "c", val |-> [k |-> "noparam", n |-> "78"]], 0>>, <<[m |-> "set", col |-> "c", val |-> [k |-> "bin", op |-> "+", l |-> Fld("T1", "c"), r |-> NumV(nv)]], 1>>,
         <<[m |-> "orderby", terms |-> <<[k |-> "bin", op |-> "+", l |-> Fld("T1", "b"), r |-> NumV(nv)]>>, dir |-> ""], 1>> } ELSE {})

Prefix(kind) == CASE kind = "select" -> << [m |-> "from_", src |-> "T1"], [m |-> "select", terms |-> <<Fld("T1", "a")>>] >>
                  [] kind = "insert" -> << [m |-> "into", src |-> "T1"] >>
                  [] kind = "upsert" -> << [m |-> "into", src |-> "T1"], [m |-> "insert", row |-> <<[k |-> "num", n |-> "1"], [k |-> "str", n |-> "k"]>>],
                                          [m |-> "on_conflict", names |-> <<"a">>] >>
                  [] kind = "update" -> << [m |-> "update", src |-> "T1"], [m |-> "set", col |-> "a", val |-> [k |-> "num", n |-> "1"]] >>
                  [] OTHER -> << [m |-> "from_", src |-> "T1"], [m |-> "delete"] >>

VARIABLES kind, hist, nv, n
Init == kind \in Kinds /\ hist = <<>> /\ nv = 1 /\ n = 0
\* a third clause comes from the light part of the pool (WHERE / LIMIT / OFFSET / row / SET / upsert values): the cube of the full pool is out of reach
Light(k, v) == {p \in Pool(k, v) : p[1].m \in {"limit", "offset", "insert", "do_update"} \/ (p[1].m \in {"where", "set"} /\ p[2] = 1)}
Next == /\ n < MaxCalls
        /\ \E p \in (IF n < 2 THEN Pool(kind, nv) ELSE Light(kind, nv)) :
              /\ hist' = Append(hist, p[1])
              /\ nv' = nv + p[2]
        /\ n' = n + 1 /\ UNCHANGED kind
Emit == n = 0 \/ PrintT("H " \o ToJson([kind |-> kind, hist |-> Prefix(kind) \o hist]))
=============================================================================
