----------------------------- MODULE J_Replace -----------------------------
(* Judge for C16.  An event carries three real renderings as token lists:   *)
(*   rep  : build(T_old).replace_table(T_old, T_new)                        *)
(*   ref  : build(T_new)         (the same construction with new from start)*)
(*   recv0, recv1 : the receiver before and after the call                  *)
(*   oldnames : identifier payloads that denote T_old (name and alias)      *)
(* ReplaceComplete: rep = ref ; no identifier of T_old in rep ; receiver    *)
(* unchanged.  (Tokens are [t, v] with string payloads from the harness     *)
(* lexer, which PT_Lex cross-validates.)                                    *)
EXTENDS Naturals, Sequences, FiniteSets, TLC, Json, IOUtils
Events == ndJsonDeserialize(IOEnv.TRACE_FILE)
VARIABLE i
Init == i = 1
ToSet(s) == {s[k] : k \in DOMAIN s}
HasOld(toks, old) == \E k \in DOMAIN toks : toks[k].t = "id" /\ toks[k].v \in old
FirstDiff(a, b) == LET I == {k \in 1..(IF Len(a) < Len(b) THEN Len(a) ELSE Len(b)) : a[k] # b[k]} IN
                   IF I = {} THEN 0 ELSE CHOOSE k \in I : \A j \in I : k <= j
Verdict(e) ==
    LET old == ToSet(e.oldnames) IN
    [tid |-> e.tid,
     bad |-> (IF e.rep # e.ref THEN
                 {IF HasOld(e.rep, old) THEN "old-table-left" ELSE "differs-from-rebuilt"} ELSE {})
             \cup (IF e.recv0 # e.recv1 THEN {"receiver-changed"} ELSE {}),
     at |-> FirstDiff(e.rep, e.ref)]
Next == /\ i <= Len(Events)
        /\ LET v == Verdict(Events[i]) IN IF v.bad = {} THEN TRUE ELSE PrintT("V " \o ToJson(v))
        /\ i' = i + 1
Spec == Init /\ [][Next]_i
=============================================================================
