------------------------------ MODULE PT_Embed ------------------------------
(***************************************************************************)
(* Property C10: a subquery renders the same wherever it is embedded.       *)
(*   Embed[pos] : what the position adds around the stand-alone text        *)
(*       paren : the subquery is parenthesised                              *)
(*       alias : the subquery's alias follows (only defining positions)     *)
(*   EmbedsVerbatim(outer, pre, inner, suf) :                               *)
(*       outer = pre . inner . suf  where pre / suf are the tokens the same *)
(*       outer statement has around a benign subquery at that position     *)
(*       (so they contain exactly the brackets / alias of Embed[pos]) and   *)
(*       inner is the stand-alone token stream, placeholders renumbered.    *)
(***************************************************************************)
EXTENDS Naturals, Integers, Sequences, FiniteSets, TLC

Positions == {"from", "join", "in", "cmp", "select-item", "cte", "insert-select", "setop-base", "setop-operand", "create-as",
              "in-bool-group", "cmp-bool-group", "in-not", "cmp-not", "join-on-operand", "having-operand", "function-arg", "case-branch",
              \* the same positions inside an outer statement that qualifies its own columns (a join): nothing of that may reach the subquery
              "from-joined", "in-joined", "cte-joined", "select-item-joined",
              \* the SELECT source of an upsert, a scalar subquery among INSERT values
              "insert-select-upsert", "insert-value",
              \* a scalar subquery as an ORDER BY / GROUP BY item (bare or as a function argument), as the value of SET and of DO UPDATE SET
              "orderby-item", "groupby-item", "orderby-function-arg", "set-value", "do-update-value",
              \* the right operand of arithmetic (a query on the LEFT of * + - is a set operation by the builder's operator overloads)
              "arith-right", "arith-sub-right", "arith-div-right",
              \* third operand of a set operation whose second operand opted out of the brackets (wrap_set_operation_queries=False): the BASE decides for all
              "setop-operand-after-optout"}
Embed == [p \in Positions |->
            CASE p \in {"from", "join", "from-joined"} -> [paren |-> TRUE, alias |-> TRUE]
              [] p \in {"select-item", "select-item-joined"} -> [paren |-> TRUE, alias |-> TRUE]
              [] p \in {"in", "cmp", "cte", "create-as", "in-joined", "cte-joined", "in-bool-group", "cmp-bool-group", "in-not", "cmp-not", "join-on-operand", "having-operand",
                         "function-arg", "case-branch"} -> [paren |-> TRUE, alias |-> FALSE]
              [] p \in {"insert-select", "insert-select-upsert"} -> [paren |-> FALSE, alias |-> FALSE]
              [] p \in {"insert-value", "orderby-item", "groupby-item", "orderby-function-arg", "set-value", "do-update-value",
                         "arith-right", "arith-sub-right", "arith-div-right"} -> [paren |-> TRUE, alias |-> FALSE]
              [] OTHER -> [paren |-> TRUE, alias |-> FALSE]]     \* set operands: bracketed unless the dialect does not wrap

\* numbered placeholders are compared by order only
Norm(toks) == [i \in DOMAIN toks |-> IF toks[i].t = "ph" THEN [t |-> "ph", v |-> "PH"] ELSE toks[i]]

EmbedsVerbatim(outer, pre, inner, suf) == Norm(outer) = Norm(pre \o inner \o suf)

\* the brackets / alias the position really added (read off the benign rendering) agree with Embed
FrameOK(pre, suf, pos, wraps, aliasTok) ==
    LET e == Embed[pos]
        paren == IF pos \in {"setop-base", "setop-operand", "setop-operand-after-optout"} THEN wraps ELSE e.paren
        lastPre == IF pre = <<>> THEN "" ELSE pre[Len(pre)].v
        firstSuf == IF suf = <<>> THEN "" ELSE suf[1].v
    IN /\ paren = (lastPre = "(" /\ firstSuf = ")")
       /\ (e.alias /\ aliasTok # "") => (Len(suf) >= 2 /\ suf[2].v = aliasTok)
       /\ ~e.alias => ~(Len(suf) >= 2 /\ suf[2].v = aliasTok /\ aliasTok # "")

\* where the embedded text first departs from the stand-alone text
FirstDiff(a, b) == LET n == IF Len(a) < Len(b) THEN Len(a) ELSE Len(b)
                       I == {k \in 1..n : a[k] # b[k]} IN
                   IF I = {} THEN n + 1 ELSE CHOOSE k \in I : \A j \in I : k <= j
=============================================================================
