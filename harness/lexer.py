"""Reference SQL lexer (Python side).  The same lexer is specified in TLA+
(spec/PT_Lex.tla, operator Lex); TLC re-lexes raw code points for C05/C07 and
for sampled events of the other families, so this implementation is
cross-validated against the specification rather than trusted.

Token = {"t": kind, "v": payload, "q": quote char or "", "d": paren depth}
kinds: id str num word punct ph comment err
"""
from __future__ import annotations

MULTI = ["->>", "#>>", "<>", "<=", ">=", "!=", "||", "->", "#>", "@>", "<@", "?&", "?|", "::"]
SINGLE = set("(),.+-*/=<>;:[]{}&|^~@#!")

IDENT_QUOTES = {
    "mysql": ["`"],
    "mssql": ['"', "["],
}
DEFAULT_IDENT_QUOTES = ['"']


def _digit(c: str) -> bool:
    return "0" <= c <= "9"


def _letter(c: str) -> bool:
    return "a" <= c <= "z" or "A" <= c <= "Z" or c == "_" or ord(c) >= 128


def cps(s: str) -> list[int]:
    return [ord(c) for c in s]


def tla_tokens(toks: list[dict]) -> list[dict]:
    """token list in the shape PT_Lex!Lex produces (payloads as code points, quote as code point or 0)"""
    return [{"t": t["t"], "v": cps(t["v"]), "q": ord(t["q"]) if t["q"] else 0} for t in toks]


def lex(text: str, dialect: str = "sqlite") -> list[dict]:
    toks: list[dict] = []
    i, n, depth = 0, len(text), 0
    idq = IDENT_QUOTES.get(dialect, DEFAULT_IDENT_QUOTES)
    backslash = dialect == "mysql"

    def add(t, v, q=""):
        toks.append({"t": t, "v": v, "q": q, "d": depth})

    while i < n:
        c = text[i]
        if c in " \t\r\n":
            i += 1
            continue
        if text.startswith("--", i) and (dialect != "mysql" or i + 2 >= n or text[i + 2] in " \t\r\n"):
            j = text.find("\n", i)
            j = n if j < 0 else j
            add("comment", text[i:j])
            i = j
            continue
        if text.startswith("/*", i):
            j = text.find("*/", i + 2)
            j = n if j < 0 else j + 2
            add("comment", text[i:j])
            i = j
            continue
        if c in idq:
            close = "]" if c == "[" else c
            j = i + 1
            buf = []
            ok = False
            while j < n:
                if text[j] == close:
                    if close != "]" and j + 1 < n and text[j + 1] == close:
                        buf.append(close)
                        j += 2
                        continue
                    ok = True
                    break
                buf.append(text[j])
                j += 1
            if not ok:
                add("err", text[i:])
                i = n
                continue
            add("id", "".join(buf), c)
            i = j + 1
            continue
        if c == "'" or (c == '"' and dialect == "mysql"):
            j = i + 1
            buf = []
            ok = False
            while j < n:
                ch = text[j]
                if backslash and ch == "\\":
                    if j + 1 >= n:
                        break
                    nx = text[j + 1]
                    buf.append({"n": "\n", "t": "\t", "r": "\r", "0": "\0", "b": "\b", "Z": "\x1a"}.get(nx, nx))
                    j += 2
                    continue
                if ch == c:
                    if j + 1 < n and text[j + 1] == c:
                        buf.append(c)
                        j += 2
                        continue
                    ok = True
                    break
                buf.append(ch)
                j += 1
            if not ok:
                add("err", text[i:])
                i = n
                continue
            add("str", "".join(buf), c)
            i = j + 1
            continue
        if _digit(c) or (c == "." and i + 1 < n and _digit(text[i + 1])):
            j = i
            while j < n and _digit(text[j]):
                j += 1
            if j < n and text[j] == ".":
                j += 1
                while j < n and _digit(text[j]):
                    j += 1
            if j < n and text[j] in "eE":
                k = j + 1
                if k < n and text[k] in "+-":
                    k += 1
                if k < n and _digit(text[k]):
                    while k < n and _digit(text[k]):
                        k += 1
                    j = k
            if j < n and _letter(text[j]):
                # 1abc is not a number
                k = j
                while k < n and (_letter(text[k]) or _digit(text[k]) or text[k] == "$"):
                    k += 1
                add("err", text[i:k])
                i = k
                continue
            add("num", text[i:j])
            i = j
            continue
        if _letter(c):
            j = i
            while j < n and (_letter(text[j]) or _digit(text[j]) or text[j] == "$"):
                j += 1
            add("word", "".join(ch.upper() if "a" <= ch <= "z" else ch for ch in text[i:j]))
            i = j
            continue
        if c == "%" and text.startswith("%s", i):
            add("ph", "%s")
            i += 2
            continue
        if c == "$" and i + 1 < n and _digit(text[i + 1]):
            j = i + 1
            while j < n and _digit(text[j]):
                j += 1
            add("ph", text[i:j])
            i = j
            continue
        m = next((m for m in MULTI if text.startswith(m, i)), None)
        if m:
            add("punct", m)
            i += len(m)
            continue
        if c == "?":
            add("ph", "?")
            i += 1
            continue
        if c == "%":
            add("punct", "%")
            i += 1
            continue
        if c in SINGLE:
            if c == ")":
                depth = max(0, depth - 1)
            add("punct", c)
            if c == "(":
                depth += 1
            i += 1
            continue
        add("err", c)
        i += 1
    return toks


def slim(toks: list[dict]) -> list[dict]:
    return [{"t": t["t"], "v": t["v"]} for t in toks]


def balanced(toks: list[dict]) -> bool:
    d = 0
    for t in toks:
        if t["t"] == "punct" and t["v"] == "(":
            d += 1
        elif t["t"] == "punct" and t["v"] == ")":
            d -= 1
            if d < 0:
                return False
    return d == 0
