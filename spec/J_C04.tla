-------------------------------- MODULE J_C04 --------------------------------
(* Judge for C04: the inline and the parameterised rendering of one object  *)
(* (token lists) and the recorded value list, related by PT_Param.          *)
EXTENDS PT_Param, Json, IOUtils
Events == ndJsonDeserialize(IOEnv.TRACE_FILE)
VARIABLE i
Init == i = 1
Verdict(e) == [tid |-> e.tid, fault |-> ParamFault(e.inline, e.param, e.vals, e.d),
               residue |-> Residue(e.param, {e.marked[k] : k \in DOMAIN e.marked})
                           \cup {"exempt-constant-parameterised:" \o x : x \in ExemptLost(e.inline, e.param, {e.exempt[k] : k \in DOMAIN e.exempt})}]
Next == /\ i <= Len(Events)
        /\ LET v == Verdict(Events[i]) IN IF v.fault = "" /\ v.residue = {} THEN TRUE ELSE PrintT("V " \o ToJson(v))
        /\ i' = i + 1
Spec == Init /\ [][Next]_i
=============================================================================
