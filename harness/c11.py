"""C11 - column references are qualified exactly when needed and always by the right name.

spec:  PT_Builder (NeedsNS, QualOf, QualSeq per statement kind and dialect; name positions always bare), MC_C11 (generator; RefQualified on the reference)
judge: J_C11 (qualifier projection of the real token stream vs QualSeq of the folded state)
"""
from __future__ import annotations

import json

from harness import core, execb, lexer, proj, tlc


def gen(name, body=""):
    return f"---- MODULE {name}Gen ----\nEXTENDS {name}\n" + execb.srctab_tla() + body + "====\n"


def exposed(toks):
    """(exposed names of the FROM / JOIN sources of the outermost statement, qualifiers used at that level)"""
    names, quals, i, n = [], [], 0, len(toks)
    d0 = [t for t in toks if t.get("d", 0) == 0]
    k = 0
    in_from = False
    while k < len(d0):
        t = d0[k]
        if t["t"] == "word" and t["v"] in ("FROM", "JOIN"):
            in_from = True
            k += 1
            continue
        if t["t"] == "word" and t["v"] in ("WHERE", "GROUP", "ORDER", "HAVING", "ON", "LIMIT", "SELECT", "USING", "LEFT", "INNER", "CROSS", "RIGHT", "FULL", "OUTER"):
            in_from = False
        if in_from:
            if t["t"] == "punct" and t["v"] == "(":
                # a bracketed source: its alias is the identifier after the matching bracket
                j = k + 1
                while j < len(d0) and not (d0[j]["t"] == "punct" and d0[j]["v"] == ")"):
                    j += 1
                if j + 1 < len(d0) and d0[j + 1]["t"] == "word" and d0[j + 1]["v"] == "AS":
                    j += 1
                if j + 1 < len(d0) and d0[j + 1]["t"] == "id":
                    names.append(d0[j + 1]["v"])
                    k = j + 2
                else:
                    names.append("")
                    k = j + 1
                in_from = k < len(d0) and d0[k]["t"] == "punct" and d0[k]["v"] == ","
                continue
            if t["t"] == "id":
                j = k
                if j + 1 < len(d0) and d0[j + 1]["t"] == "word" and d0[j + 1]["v"] == "AS":
                    j += 1
                if j + 1 < len(d0) and d0[j + 1]["t"] == "id":
                    names.append(d0[j + 1]["v"])
                    k = j + 2
                else:
                    names.append(t["v"])
                    k = j + 1
                in_from = k < len(d0) and d0[k]["t"] == "punct" and d0[k]["v"] == ","
                continue
        elif t["t"] == "id" and k + 1 < len(d0) and d0[k + 1]["t"] == "punct" and d0[k + 1]["v"] == ".":
            quals.append(t["v"])
        k += 1
    return names, sorted(set(quals))


def auto_alias_family(rep, tier):
    """statements over several un-aliased subqueries, flat and nested, brought in through from_() and join() in every order: the automatic sqN
    aliases of one statement level must be pairwise distinct and every qualifier must name one of them (PT_Builder!ExposedOK, judge J_Names)"""
    import itertools
    import pypika_tortoise as P

    def flat(Q, name):
        tb = P.Table(name)
        return Q.from_(tb).select(tb.a)

    def nested(Q, name):
        return Q.from_(flat(Q, name)).select("a")

    def nested2(Q, name):
        return Q.from_(nested(Q, name)).select("a")
    shapes = {"flat": flat, "nested": nested, "nested2": nested2}
    events, meta = [], []
    for d, Q in core.query_classes().items():
        if tier == "quick" and d in ("mssql", "oracle"):
            continue
        ld = core.lex_dialect(d)
        t = P.Table("t")
        for n in (2, 3):
            for combo in itertools.product(sorted(shapes), repeat=n):
                for how in itertools.product(("from_", "join"), repeat=n):
                    for base in ("table", "none"):
                        if base == "none" and how[0] != "from_":
                            continue
                        exc, text = "", ""
                        try:
                            subs = [shapes[s](Q, "u%d" % k) for k, s in enumerate(combo)]
                            q = Q.from_(t) if base == "table" else core.empty_builder(Q)
                            first = t if base == "table" else subs[0]
                            for s, h in zip(subs, how):
                                q = q.from_(s) if h == "from_" else q.join(s).on(first.a == s.a)
                            q = q.select(*[s.a for s in subs])
                            text = str(q)
                        except Exception as ex:  # noqa
                            exc = type(ex).__name__
                        names, quals = exposed(lexer.lex(text, ld)) if not exc else ([], [])
                        events.append({"tid": len(events), "names": names, "quals": quals, "exc": exc})
                        meta.append((d, {"subqueries": list(combo), "brought_in_by": list(how), "base": base}, text))
    results = tlc.judge_shards("J_NamesGen", "CONSTANT SrcTab <- G_SrcTab\nINIT Init\nNEXT Next\n", events, shard=max(300, len(events) // 8 + 1),
                               extra_files={"J_NamesGen.tla": gen("J_Names")}, timeout=1200)
    rep.add_tlc(results)
    if sum(max(x.distinct - 1, 0) for x in results) != len(events):
        raise core.MachineryError("J_Names did not consume every event")
    for res in results:
        for v in res.json_tagged("V"):
            d, prog, text = meta[v["tid"]]
            rep.discrepancy([["auto-alias", v["why"], "+".join(prog["subqueries"]), "+".join(prog["brought_in_by"]), prog["base"]]],
                            {"dialect": d, "program": prog, "sql": text, "exposed_names": events[v["tid"]]["names"], "qualifiers": events[v["tid"]]["quals"], "error": events[v["tid"]]["exc"]},
                            what="automatic subquery aliases of one statement level: " + v["why"])
    return len(events)


def run(tier: str) -> int:
    rep = core.Report("C11", tier)
    r = tlc.run("MC_C11Gen", f"CONSTANTS\nMaxClauses = {2 if tier == 'quick' else 3}\nSrcTab <- G_SrcTab\nINIT Init\nNEXT Next\nINVARIANT Emit\nINVARIANT RefQualified\n",
                workers=16, heap="8g", extra_files={"MC_C11Gen.tla": gen("MC_C11")}, timeout=3000)
    rep.add_tlc(r)
    if r.violation or not r.ok:
        raise core.MachineryError(f"MC_C11: {r.violation}\n{r.raw_tail[-1500:]}")
    hs = r.json_tagged("H")
    seen, progs = set(), []
    for h in hs:
        k = json.dumps(h["hist"], sort_keys=True)
        if k not in seen:
            seen.add(k)
            progs.append(h)
    events, meta = [], []
    qc = core.query_classes()
    for d, Q in qc.items():
        ld = core.lex_dialect(d)
        for h in progs + ([dict(x, siblings=True) for x in progs[::7]] if d == "generic" else []):
            if d != "postgresql" and any(c["m"] == "returning" for c in h["hist"]):
                continue
            env = execb.Env(Q)
            # (a sample of the programs is also run inside a branching history: sibling continuations derived and discarded)
            q, excs = env.run(h["hist"], decoys=bool(h.get("siblings")))
            exc, text = next((e for e in excs if e), ""), ""
            if exc:
                continue  # a call of the history was rejected (guards are C14's): no statement to look at
            if not exc:
                try:
                    text = str(q)
                except Exception as ex:  # noqa
                    exc = type(ex).__name__
            toks = lexer.lex(text, ld)
            events.append({"tid": len(events), "d": d, "hist": h["hist"], "exc": exc, "quals": proj.qual_seq(toks)})
            meta.append((d, h, text))
    results = tlc.judge_shards("J_C11Gen", "CONSTANT SrcTab <- G_SrcTab\nINIT Init\nNEXT Next\n", events, shard=max(500, len(events) // 16 + 1),
                               heap="3g", extra_files={"J_C11Gen.tla": gen("J_C11")}, timeout=3000)
    rep.add_tlc(results)
    if sum(max(x.distinct - 1, 0) for x in results) != len(events):
        raise core.MachineryError("J_C11 did not consume every event")
    n_auto = auto_alias_family(rep, tier)
    rep.extra["auto_alias_programs"] = n_auto
    rep.traces = len(events) + n_auto
    rep.evaluations = rep.traces
    rep.distinct = {json.dumps(m[1]["hist"], sort_keys=True) for m in meta}
    bad = []
    for res in results:
        bad += res.json_tagged("V")
    for v in sorted(bad, key=lambda v: len(meta[v["tid"]][1]["hist"])):
        d, h, text = meta[v["tid"]]
        shape = own_shape(h["hist"])
        for clause, fault, col in sorted(v["bad"]):
            rep.discrepancy([[d, h["kind"], clause, shape, fault]] + ([[d, h["kind"], clause, shape, fault, "with-sibling-continuations"]] if h.get("siblings") else []),
                            {"dialect": d, "kind": h["kind"], "calls": h["hist"], "sql": text, "expected": v["want"], "observed": events[v["tid"]]["quals"]},
                            what=f"{clause}: qualifier {fault}")
    for k in (0, len(meta) // 2, len(meta) - 1):
        rep.sample({"dialect": meta[k][0], "kind": meta[k][1]["kind"], "calls": meta[k][1]["hist"], "sql": meta[k][2], "quals": events[k]["quals"]})
    rep.rule = ("TLC grows statements: 5 kinds x 5 base source shapes (plain, aliased, schema, subquery, CTE reference) x 8 second-source shapes (none, second FROM, "
                "join on/using/cross, aliased copy of the same table, subquery) x up to N clause calls holding a field of an in-scope or foreign source "
                "(select, where, group by, having, order by, set value/target, insert columns, on conflict); each is executed under the six dialect classes; "
                "TLC folds the calls through PT_Builder and compares the (clause, qualifier, column) projection of the real tokens with QualSeq")
    rep.exhaustive = True
    return rep.finish()


def own_shape(hist):
    """shape class of the statement's own (first) source and whether further sources exist"""
    kind = {"T1": "plain", "A3": "aliased", "S4": "schema", "Q6": "subquery", "C7": "cte", "T5": "plain"}
    first = next(c for c in hist if c["m"] in ("from_", "update", "into"))
    more = any(c["m"] == "join" or (c["m"] == "from_" and c is not first) for c in hist)
    return kind.get(first["src"], first["src"]) + ("+more" if more else "")


def source_shape(hist):
    parts = []
    for c in hist:
        if c["m"] in ("from_", "update", "into"):
            parts.append(c["m"] + ":" + c["src"])
        elif c["m"] == "join":
            parts.append("join-" + c["kind"] + ":" + c["item"])
    return "+".join(parts)


def replay(path: str) -> int:
    print(json.dumps(json.load(open(path))["example"], indent=1))
    return 0
