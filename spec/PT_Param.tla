------------------------------ MODULE PT_Param ------------------------------
(***************************************************************************)
(* Property C04: parameterised rendering is equivalent to inline rendering. *)
(*                                                                          *)
(*   Placeholder(d, k)   text of the k-th placeholder in dialect d          *)
(*   LitSpan(it, i, v)   length of the inline literal span starting at i    *)
(*                       that decodes to value v (0 = no such span)         *)
(*   ParamEquiv          walk both token streams in parallel: identical at  *)
(*                       every non-placeholder position; the k-th           *)
(*                       placeholder has the dialect's text and stands      *)
(*                       where the inline stream has ONE literal decoding   *)
(*                       to values[k]; all values consumed; plain data      *)
(* Tokens [t, v] come decoded from the lexer; values are typed descriptors  *)
(*   [k |-> "str", v], [k |-> "int", v (decimal text)], [k |-> "neg", v],   *)
(*   [k |-> "float", v (text)], [k |-> "bool", v], [k |-> "list", items],   *)
(*   [k |-> "obj"] (not plain data)                                         *)
(***************************************************************************)
EXTENDS Naturals, Sequences, FiniteSets, TLC

NumText(n) == ToString(n)
Placeholder(d, k) == IF d = "postgresql" THEN "$" \o NumText(k) ELSE IF d = "mysql" THEN "%s" ELSE "?"

IsTok(it, i, ty, v) == i <= Len(it) /\ it[i].t = ty /\ it[i].v = v

\* one scalar literal at position i decoding to v: its length in tokens, 0 if none
ScalarSpan(it, i, v) ==
    CASE v.k = "str" -> IF IsTok(it, i, "str", v.v) THEN 1 ELSE 0
      [] v.k = "int" -> IF IsTok(it, i, "num", v.v) THEN 1 ELSE 0
      [] v.k = "float" -> IF IsTok(it, i, "num", v.v) THEN 1 ELSE 0
      [] v.k = "neg" -> IF IsTok(it, i, "punct", "-") /\ IsTok(it, i + 1, "num", v.v) THEN 2 ELSE 0
      [] v.k = "bool" -> IF (v.v /\ (IsTok(it, i, "word", "TRUE") \/ IsTok(it, i, "num", "1")))
                            \/ (~v.v /\ (IsTok(it, i, "word", "FALSE") \/ IsTok(it, i, "num", "0"))) THEN 1 ELSE 0
      [] v.k = "null" -> IF IsTok(it, i, "word", "NULL") THEN 1 ELSE 0
      [] OTHER -> 0

RECURSIVE ListSpan(_, _, _, _)
\* items separated by commas starting at i; returns position after the last item or 0
ListSpan(it, i, items, k) ==
    IF k > Len(items) THEN i
    ELSE LET n == ScalarSpan(it, i, items[k]) IN
         IF n = 0 THEN 0
         ELSE IF k = Len(items) THEN i + n
         ELSE IF IsTok(it, i + n, "punct", ",") THEN ListSpan(it, i + n + 1, items, k + 1) ELSE 0

LitSpan(it, i, v) ==
    IF v.k = "list" THEN
        \* an array literal  [ a , b ]  or  ARRAY [ a , b ]
        LET s == IF IsTok(it, i, "word", "ARRAY") THEN i + 1 ELSE i IN
        IF ~IsTok(it, s, "punct", "[") THEN 0
        ELSE LET e == ListSpan(it, s + 1, v.items, 1) IN
             IF e # 0 /\ IsTok(it, e, "punct", "]") THEN e + 1 - i ELSE 0
    ELSE ScalarSpan(it, i, v)

Plain(v) == v.k \in {"str", "int", "neg", "float", "bool", "null"}
            \/ (v.k = "list" /\ \A x \in DOMAIN v.items : v.items[x].k \in {"str", "int", "neg", "float", "bool", "null"})

RECURSIVE Walk(_, _, _, _, _, _, _)
\* returns "" when equivalent, else the fault: style | count | order | residue | differs | not-plain-data
Walk(it, pt, vals, d, i, j, k) ==
    IF j > Len(pt) THEN (IF i <= Len(it) THEN "differs" ELSE IF k # Len(vals) + 1 THEN "count" ELSE "")
    ELSE IF pt[j].t = "ph" THEN
        (IF k > Len(vals) THEN "count"
         ELSE IF pt[j].v # Placeholder(d, k) THEN "style"
         ELSE IF ~Plain(vals[k]) THEN "not-plain-data"
         ELSE LET n == LitSpan(it, i, vals[k]) IN
              IF n = 0 THEN (IF \E m \in DOMAIN vals : LitSpan(it, i, vals[m]) # 0 THEN "order" ELSE "differs")
              ELSE Walk(it, pt, vals, d, i + n, j + 1, k + 1))
    ELSE IF i <= Len(it) /\ it[i] = pt[j] THEN Walk(it, pt, vals, d, i + 1, j + 1, k)
    ELSE "differs"

ParamFault(it, pt, vals, d) == Walk(it, pt, vals, d, 1, 1, 1)
\* no parameterised value's text remains in the parameterised SQL
\* constants exempt from parameterisation by contract (allow_parametrize=False) are literals in BOTH renderings: each exempt payload that
\* the inline stream shows as a literal is a literal of the parameterised stream too
ExemptLost(it, pt, exempt) == {x \in exempt : (\E j \in DOMAIN it : it[j].t \in {"str", "num"} /\ it[j].v = x)
                                             /\ ~(\E j \in DOMAIN pt : pt[j].t \in {"str", "num"} /\ pt[j].v = x)}
Residue(pt, marked) == {m \in marked : \E j \in DOMAIN pt : pt[j].t \in {"str", "num"} /\ pt[j].v = m}
=============================================================================
