----------------------------- MODULE PT_RefSql -----------------------------
(***************************************************************************)
(* Property C03: the reference transcription RefFull(b) of an abstract      *)
(* statement (PT_Builder state) into plain SQLite SQL text:                 *)
(*   - every operator application in its own brackets                       *)
(*   - every column reference qualified by the alias-or-name of the source  *)
(*     it was created from                                                  *)
(*   - clauses in grammatical order, explicit AS for aliases, explicit      *)
(*     LIMIT -1 when only an offset is given                                *)
(* The text is a STRING (TLC concatenates strings with \o); SQLite itself   *)
(* is the judge of what it means.  Suspects(b) lists the features of a      *)
(* program that are candidates for a divergence (bracket-needing operator   *)
(* edges from PT_Expr, structural features): they are the signature         *)
(* alternatives of a failing program.                                       *)
(***************************************************************************)
EXTENDS PT_Builder
E == INSTANCE PT_Expr

Q(name) == "\"" \o name \o "\""
RECURSIVE Join(_, _)
Join(strs, sep) == IF strs = <<>> THEN "" ELSE IF Len(strs) = 1 THEN strs[1] ELSE strs[1] \o sep \o Join(Tail(strs), sep)

\* window frame: [unit |-> "ROWS" | "RANGE", lo |-> bound, hi |-> bound | <<>>]; a bound is <<"P", n>> (n PRECEDING, -1 = UNBOUNDED),
\* <<"F", n>> (n FOLLOWING) or <<"C">> (CURRENT ROW); a single bound (hi = <<>>) is the short form  ROWS <bound>
BoundText(b) == IF b[1] = "C" THEN "CURRENT ROW"
                ELSE (IF b[2] < 0 THEN "UNBOUNDED" ELSE ToString(b[2])) \o (IF b[1] = "P" THEN " PRECEDING" ELSE " FOLLOWING")
FrameText(f) == IF f.hi = <<>> THEN f.unit \o " " \o BoundText(f.lo)
                ELSE f.unit \o " BETWEEN " \o BoundText(f.lo) \o " AND " \o BoundText(f.hi)
RECURSIVE RF(_), RFSeq(_)
RFSeq(s) == [i \in DOMAIN s |-> RF(s[i])]
RF(t) ==
    CASE t.k = "fld" -> IF t.src = "" THEN Q(t.n) ELSE Q(SrcQual(t.src)) \o "." \o Q(t.n)
      [] t.k = "star" -> "*"
      [] t.k = "num" -> "(" \o t.n \o ")"
      [] t.k = "flt" -> "(" \o t.n \o ")"
      [] t.k = "str" -> "'" \o t.n \o "'"
      [] t.k = "bool" -> IF t.v THEN "1" ELSE "0"
      [] t.k = "bin" -> "(" \o RF(t.l) \o " " \o t.op \o " " \o RF(t.r) \o ")"
      [] t.k = "neg" -> "(- " \o RF(t.a) \o ")"
      [] t.k = "not" -> "(NOT " \o RF(t.a) \o ")"
      [] t.k = "isnull" -> "(" \o RF(t.a) \o " IS NULL)"
      [] t.k = "in" -> "(" \o RF(t.a) \o " IN (" \o Join(RFSeq(t.items), ", ") \o "))"
      [] t.k = "between" -> "(" \o RF(t.a) \o " BETWEEN " \o RF(t.lo) \o " AND " \o RF(t.hi) \o ")"
      [] t.k = "call" -> t.f \o "(" \o (IF "dist" \in DOMAIN t /\ t.dist THEN "DISTINCT " ELSE "")
                         \o (IF t.args = <<>> THEN "*" ELSE Join(RFSeq(t.args), ", ")) \o ")"
      [] t.k = "case" -> "(CASE WHEN " \o RF(t.w) \o " THEN " \o RF(t.t) \o " ELSE " \o RF(t.e) \o " END)"
      [] t.k = "win" -> t.f \o "(" \o Join(RFSeq(t.args), ", ") \o ") OVER (" \o
                        (IF t.part = <<>> THEN "" ELSE "PARTITION BY " \o Join(RFSeq(t.part), ", ")) \o
                        (IF t.ord = <<>> THEN "" ELSE " ORDER BY " \o Join(RFSeq(t.ord), ", ")) \o
                        (IF "frame" \in DOMAIN t THEN " " \o FrameText(t.frame) ELSE "") \o ")"
      [] OTHER -> "?"

Item(t) == IF Alias(t) # "" THEN RF(t) \o " AS " \o Q(Alias(t)) ELSE RF(t)
Src(s) == LET i == SrcTab(s) IN
          (IF i.kind = "subq" THEN "(SELECT \"a\", \"b\", \"c\" FROM \"t6\")" ELSE IF i.schema # "" THEN Q(i.schema) \o "." \o Q(i.name) ELSE Q(i.name))
          \o (IF i.alias # "" THEN " AS " \o Q(i.alias) ELSE "")
AndAll(cs) == Join(RFSeq(cs), " AND ")
OrdItem(o) == RF(o.t) \o (IF o.dir = "" THEN "" ELSE " " \o o.dir)
RECURSIVE Joins(_, _)
Joins(js, i) == IF i > Len(js) THEN ""
                ELSE (IF js[i].kind = "cross" THEN " CROSS JOIN " \o Src(js[i].item)
                      ELSE (IF js[i].how = "LEFT" THEN " LEFT JOIN " ELSE " JOIN ") \o Src(js[i].item) \o
                           (IF js[i].kind = "on" THEN " ON " \o RF(js[i].crit)
                            ELSE " USING (" \o Join([k \in DOMAIN js[i].cols |-> Q(js[i].cols[k])], ", ") \o ")"))
                     \o Joins(js, i + 1)
Pag(b) == (IF b.lim >= 0 THEN " LIMIT " \o ToString(b.lim) ELSE IF b.off >= 0 THEN " LIMIT -1" ELSE "")
          \o (IF b.off >= 0 THEN " OFFSET " \o ToString(b.off) ELSE "")
\* forceWhere: SQLite's upsert grammar needs a WHERE clause (WHERE true) in INSERT .. SELECT .. ON CONFLICT
SelectCoreW(b, forceWhere) ==
    "SELECT " \o (IF b.distinct THEN "DISTINCT " ELSE "") \o Join([i \in DOMAIN b.sel |-> Item(b.sel[i])], ", ")
    \o (IF b.from = <<>> THEN "" ELSE " FROM " \o Join([i \in DOMAIN b.from |-> Src(b.from[i])], ", "))
    \o Joins(b.joins, 1)
    \o (IF b.whr = <<>> THEN (IF forceWhere THEN " WHERE true" ELSE "") ELSE " WHERE " \o AndAll(b.whr))
    \o (IF b.grp = <<>> THEN "" ELSE " GROUP BY " \o Join(RFSeq(b.grp), ", "))
    \o (IF b.hav = <<>> THEN "" ELSE " HAVING " \o AndAll(b.hav))
SelectFull(b) == SelectCoreW(b, b.ins # "" /\ ~b.selinto /\ b.vals = <<>> /\ b.oc)
    \o (IF b.ord = <<>> THEN "" ELSE " ORDER BY " \o Join([i \in DOMAIN b.ord |-> OrdItem(b.ord[i])], ", "))
    \o Pag(b)
RECURSIVE Rows(_, _)
Rows(vs, i) == IF i > Len(vs) THEN "" ELSE (IF i > 1 THEN ", " ELSE "") \o "(" \o Join(RFSeq(vs[i]), ", ") \o ")" \o Rows(vs, i + 1)
SetItem(s) == Q(s.col) \o " = " \o RF(s.val)
\* references inside DML refer to the statement's own table by its bare name / alias
RefFull(b) ==
    LET k == Kind(b) IN
    IF k = "SELECT" THEN SelectFull(b)
    ELSE IF k = "DELETE" THEN
        "DELETE FROM " \o Src(b.from[1]) \o (IF b.whr = <<>> THEN "" ELSE " WHERE " \o AndAll(b.whr))
        \o (IF b.ord = <<>> THEN "" ELSE " ORDER BY " \o Join([i \in DOMAIN b.ord |-> OrdItem(b.ord[i])], ", ")) \o Pag(b)
    ELSE IF k = "UPDATE" THEN
        "UPDATE " \o Src(b.upd) \o " SET " \o Join([i \in DOMAIN b.sets |-> SetItem(b.sets[i])], ", ")
        \o (IF b.from = <<>> /\ b.joins = <<>> THEN ""
            ELSE " FROM " \o Join([i \in DOMAIN b.from |-> Src(b.from[i])] \o [i \in DOMAIN b.joins |-> Src(b.joins[i].item)], ", "))
        \o (IF b.whr = <<>> /\ b.joins = <<>> THEN ""
            ELSE " WHERE " \o AndAll([i \in DOMAIN b.joins |-> b.joins[i].crit] \o b.whr))
    ELSE
        (IF b.replace THEN "REPLACE INTO " ELSE "INSERT INTO ") \o Src(b.ins)
        \o (IF b.cols = <<>> THEN "" ELSE " (" \o Join([i \in DOMAIN b.cols |-> Q(b.cols[i])], ", ") \o ")")
        \o (IF b.vals # <<>> THEN " VALUES " \o Rows(b.vals, 1) ELSE " " \o SelectFull(b))
        \o (IF ~b.oc THEN ""
            ELSE " ON CONFLICT" \o (IF b.ocf = <<>> THEN "" ELSE " (" \o Join([i \in DOMAIN b.ocf |-> Q(b.ocf[i])], ", ") \o ")")
                 \o (IF b.ocw = <<>> THEN "" ELSE " WHERE " \o AndAll(b.ocw))
                 \o (IF b.ocnothing THEN " DO NOTHING"
                     ELSE " DO UPDATE SET " \o Join([i \in DOMAIN b.ocupd |-> SetItem(b.ocupd[i])], ", ")
                          \o (IF b.ocuw = <<>> THEN "" ELSE " WHERE " \o AndAll(b.ocuw))))

\* nesting shapes applied by the executor around a SELECT program
RefShape(shape, inner, arity) ==
    CASE shape = "top" -> inner
      [] shape = "subquery-from" -> "SELECT \"sq\".\"a\" FROM (" \o inner \o ") AS \"sq\" ORDER BY 1"
      [] shape = "subquery-from-topn" -> "SELECT \"sq\".\"a\" FROM (" \o inner \o ") AS \"sq\" LIMIT 2"
      [] shape = "subquery-in" -> "SELECT \"ot\".\"k\" FROM \"ot\" WHERE (\"ot\".\"k\" IN (" \o inner \o ")) ORDER BY 1"
      [] shape = "correlated-in" -> "SELECT \"t1\".\"a\" FROM \"t1\" WHERE (\"t1\".\"b\" IN (" \o inner \o ")) ORDER BY 1"
      [] shape = "union-in" -> "SELECT \"ot\".\"k\" FROM \"ot\" WHERE (\"ot\".\"k\" IN (" \o inner \o " UNION SELECT \"ot\".\"k\" FROM \"ot\")) ORDER BY 1"
      [] shape = "union-from" -> "SELECT \"sq\".\"a\" FROM (" \o inner \o " UNION ALL SELECT \"ot\".\"k\" FROM \"ot\") AS \"sq\" ORDER BY 1"
      [] shape = "union" -> inner \o " UNION SELECT \"ot\".\"k\" FROM \"ot\""
      [] shape = "intersect" -> inner \o " INTERSECT SELECT \"ot\".\"k\" FROM \"ot\""
      [] shape = "except" -> inner \o " EXCEPT SELECT \"ot\".\"k\" FROM \"ot\""
      [] OTHER -> inner

\* ---- programs with a meaning to preserve: two select-list entries with one alias make every reference to that
\* alias (ORDER BY / GROUP BY of the aliased term) ambiguous in SQL itself; such programs are not generated
DistinctAliases(b) == \A i, j \in DOMAIN b.sel : (i # j /\ Alias(b.sel[i]) # "") => Alias(b.sel[i]) # Alias(b.sel[j])
Meaningful(b) == DistinctAliases(b)

\* ---- suspects: what in a program could make the library's rendering diverge
RECURSIVE TermsOf(_)
AllTerms(b) == b.sel \o b.whr \o b.grp \o b.hav \o [i \in DOMAIN b.ord |-> b.ord[i].t]
               \o [i \in DOMAIN b.sets |-> b.sets[i].val] \o [i \in DOMAIN b.ocupd |-> b.ocupd[i].val] \o b.ocw \o b.ocuw
               \o [i \in DOMAIN b.joins |-> b.joins[i].crit]
TermsOf(vs) == IF vs = <<>> THEN <<>> ELSE Head(vs) \o TermsOf(Tail(vs))
EdgeName(e) == "edge:" \o e[1] \o "," \o e[2] \o "," \o e[3]
Suspects(b) ==
    LET ts == AllTerms(b) \o TermsOf(b.vals)
        edges == UNION {E!NeedEdges(ts[i]) : i \in DOMAIN ts}
        own == IF b.upd # "" THEN b.upd ELSE IF b.ins # "" THEN b.ins ELSE ""
    IN {EdgeName(e) : e \in edges}
       \cup (IF b.off >= 0 /\ b.lim < 0 THEN {"offset-without-limit"} ELSE {})
       \cup (IF b.upd # "" /\ b.joins # <<>> THEN {"update-join"} ELSE {})
       \cup (IF b.upd # "" /\ b.from # <<>> THEN {"update-from"} ELSE {})
       \cup (IF b.del /\ (b.joins # <<>> \/ Len(b.from) > 1) THEN {"delete-multi-source"} ELSE {})
       \cup (IF own # "" /\ SrcTab(own).alias # "" THEN {"own-table-aliased"} ELSE {})
       \cup (IF \E i \in DOMAIN ts : Alias(ts[i]) # "" /\ i > Len(b.sel) THEN {"aliased-operand-term"} ELSE {})
       \cup (IF b.oc /\ b.ins # "" /\ b.vals = <<>> /\ b.whr = <<>> THEN {"upsert-select-without-where" \o (IF b.grp # <<>> THEN "+groupby" ELSE "") \o (IF b.hav # <<>> THEN "+having" ELSE "")
                                                                                              \o (IF b.ord # <<>> THEN "+orderby" ELSE "") \o (IF b.lim >= 0 THEN "+limit" ELSE "")}
             ELSE IF b.oc THEN {"upsert"} ELSE {})
       \cup (IF b.ins # "" /\ b.vals = <<>> /\ ~(b.oc /\ b.whr = <<>>) THEN {"insert-select"} ELSE {})
       \* a statement that does not qualify its columns orders / groups by a COLUMN whose name another select item carries as its alias:
       \* the bare name resolves to the alias (the string form orderby("c") means the column c of the first FROM table)
       \cup (IF ~NeedsNS(b) /\ \E t \in {b.ord[i].t : i \in DOMAIN b.ord} \cup {b.grp[i] : i \in DOMAIN b.grp} :
                                   t.k = "fld" /\ Alias(t) = "" /\ t.n \in SelAliases(b)
             THEN {"select-alias-shadows-unqualified-column"} ELSE {})
=============================================================================
