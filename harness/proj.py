"""Projections of a real token stream that the judges compare with the specification's expected projections
(never whole strings): clause of every top-level token, qualifier of every column reference, alias occurrences."""
from __future__ import annotations

COLS = {"a", "b", "c", "z"}
ALIASES = {"alb", "ala", "alx", "aly", "alz"}


def top_clauses(toks):
    """yield (index, clause) for tokens of the outermost statement; tokens of nested SELECTs are skipped"""
    clause = ""
    i, n = 0, len(toks)
    skip_until_depth = None
    prev_words = []
    while i < n:
        t = toks[i]
        if skip_until_depth is not None:
            if t["t"] == "punct" and t["v"] == ")" and t["d"] == skip_until_depth:
                skip_until_depth = None
            i += 1
            continue
        if t["t"] == "punct" and t["v"] == "(" and i + 1 < n and toks[i + 1]["t"] == "word" and toks[i + 1]["v"] == "SELECT" and i > 0:
            skip_until_depth = t["d"]
            i += 1
            continue
        if t["t"] == "word":
            w = t["v"]
            two = (prev_words[-1] + " " + w) if prev_words else ""
            if t["d"] == 0 or clause in ("VALUES", "COLUMNS", "ON CONFLICT"):
                if w in ("SELECT", "WHERE", "PREWHERE", "HAVING", "SET", "VALUES", "RETURNING", "FROM", "UPDATE", "DELETE") and t["d"] == 0:
                    if not (w == "SET" and clause == "ON CONFLICT") and not (w == "WHERE" and clause == "ON CONFLICT") \
                            and not (w == "UPDATE" and clause in ("ON CONFLICT", "ORDER BY", "WHERE", "FOR")):
                        clause = w
                elif w == "JOIN" and t["d"] == 0:
                    clause = "JOIN"
                elif two in ("GROUP BY", "ORDER BY") and t["d"] == 0:
                    clause = two
                elif two in ("INSERT INTO", "REPLACE INTO", "IGNORE INTO"):
                    clause = "INTO"
                elif two == "ON CONFLICT" or two == "DUPLICATE KEY":
                    clause = "ON CONFLICT"
                elif w in ("LIMIT", "OFFSET", "FETCH") and t["d"] == 0:
                    clause = "PAG"
            prev_words.append(w)
        elif t["t"] == "punct" and t["v"] == "(" and clause == "INTO" and t["d"] == 0:
            clause = "COLUMNS"
        yield i, clause
        i += 1


def qual_seq(toks):
    """[[clause, qualifier, column], ...] for every column token of the outermost statement"""
    out = []
    idx = dict(top_clauses(toks))
    for i, clause in idx.items():
        t = toks[i]
        if t["t"] != "id" or t["v"] not in COLS:
            continue
        if i + 1 < len(toks) and toks[i + 1]["t"] == "punct" and toks[i + 1]["v"] == ".":
            continue  # a qualifier that happens to be named like a column
        q = ""
        if i >= 2 and toks[i - 1]["t"] == "punct" and toks[i - 1]["v"] == "." and toks[i - 2]["t"] == "id":
            q = toks[i - 2]["v"]
        out.append([clause, q, t["v"]])
    return out


def alias_seq(toks):
    """[[clause, alias], ...] for every alias-named identifier token of the outermost statement that is not a qualifier"""
    out = []
    for i, clause in top_clauses(toks):
        t = toks[i]
        if t["t"] == "id" and t["v"] in ALIASES and not (i + 1 < len(toks) and toks[i + 1]["v"] == ".") \
                and not (i > 0 and toks[i - 1]["t"] == "punct" and toks[i - 1]["v"] == "."):      # ("t"."ala" is a column called ala, not an alias)
            out.append([clause, t["v"]])
    return out


def nested_selects(toks):
    """token lists of the maximal bracketed SELECTs of a statement ( '(' SELECT ... ')' ), depth renormalised to 0"""
    out, i, n = [], 0, len(toks)
    while i < n:
        t = toks[i]
        if t["t"] == "punct" and t["v"] == "(" and i + 1 < n and toks[i + 1]["t"] == "word" and toks[i + 1]["v"] == "SELECT":
            d = t["d"]
            j = i + 1
            while j < n and not (toks[j]["t"] == "punct" and toks[j]["v"] == ")" and toks[j]["d"] == d):
                j += 1
            out.append([dict(x, d=x["d"] - d - 1) for x in toks[i + 1:j]])
            i = j + 1
            continue
        i += 1
    return out
