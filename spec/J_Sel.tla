-------------------------------- MODULE J_Sel --------------------------------
(* Judge for the select-list rules: the items of the real SELECT clause     *)
(* (qualifier, what) vs PT_Builder!SelProj of the folded calls.             *)
EXTENDS PT_Builder, Json, IOUtils
Events == ndJsonDeserialize(IOEnv.TRACE_FILE)
VARIABLE i
Init == i = 1
Want(e) == LET p == SelProj(Fold(Empty, e.hist)) IN [k \in DOMAIN p |-> <<IF p[k][1] = "" THEN "" ELSE SrcQual(p[k][1]), p[k][2]>>]
Next == /\ i <= Len(Events)
        /\ LET e == Events[i] IN IF e.exc = "" /\ Want(e) = e.items THEN TRUE ELSE PrintT("V " \o ToJson([tid |-> e.tid, want |-> Want(e)]))
        /\ i' = i + 1
Spec == Init /\ [][Next]_i
=============================================================================
