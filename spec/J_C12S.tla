------------------------------- MODULE J_C12S -------------------------------
(* Judge for C12, set operations: alias projection of  first UNION later    *)
(* ORDER BY ords  vs PT_Builder!SetopAliasSeq.                               *)
EXTENDS PT_Builder, Json, IOUtils
Events == ndJsonDeserialize(IOEnv.TRACE_FILE)
VARIABLE i
Init == i = 1
Count(s, x) == Cardinality({k \in DOMAIN s : s[k] = x})
Verdict(e) ==
    LET want == SetopAliasSeq(e.first, e.later, e.ords)
        got == e.aliases
        keys == ToSet(want) \cup ToSet(got)
        defined == IF e.first = <<>> THEN {} ELSE {Alias(e.first[k]) : k \in DOMAIN e.first}
    IN [tid |-> e.tid,
        bad |-> IF e.exc # "" THEN {<<"raises", e.exc, "">>}
                ELSE {<<(IF Count(got, x) < Count(want, x) THEN "missing"
                        ELSE IF Count(want, x) = 0 /\ x[1] = "ORDER BY" /\ x[2] \notin defined THEN "dangling-reference"
                        ELSE IF Count(want, x) = 0 THEN "spurious" ELSE "duplicated"), x[1], x[2]>>
                      : x \in {y \in keys : Count(got, y) # Count(want, y)}},
        want |-> want]
Next == /\ i <= Len(Events)
        /\ LET v == Verdict(Events[i]) IN IF v.bad = {} THEN TRUE ELSE PrintT("V " \o ToJson(v))
        /\ i' = i + 1
Spec == Init /\ [][Next]_i
=============================================================================
