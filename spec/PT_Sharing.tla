----------------------------- MODULE PT_Sharing -----------------------------
(***************************************************************************)
(* Heap model of the @builder protocol (properties C01, C15).               *)
(*                                                                          *)
(* An object is a record of attribute -> cell; container-valued attributes  *)
(* (clause lists, sets) live in cells that can be SHARED between objects.   *)
(* A builder call is                                                        *)
(*     copy  : shallow copy of the receiver - each attribute either shares  *)
(*             the receiver's cell or, if a __copy__ re-copies it, gets a   *)
(*             fresh cell with the same content                             *)
(*     effect: the method body touches attributes of the copy:              *)
(*               none / rebind (fresh cell) / inplace (append to the cell   *)
(*               it has) / nested (mutates an element object that every     *)
(*               copy of the list still references)                         *)
(* copy.copy is the copy step alone; deepcopy / pickle give fresh cells for *)
(* everything.                                                              *)
(*                                                                          *)
(* The tables are CONSTANTS per scenario (class + seed state):              *)
(*   the INTENDED instance satisfies  inplace/nested => never shared, and   *)
(*   TLC proves Frozen for it; the OBSERVED instance is measured on the     *)
(*   real code by the harness, and every history in which TLC finds Frozen  *)
(*   violated is replayed on the real library before it counts.             *)
(* The same transition system is the generator of call histories (trees of  *)
(* calls: any live object may be the receiver of the next call).            *)
(***************************************************************************)
EXTENDS Naturals, Sequences, FiniteSets, TLC

CONSTANTS Scen,        \* scenario ids
          LabelsOf(_), \* scenario -> set of call labels
          HotOf(_),    \* scenario -> labels allowed at depth 3 (those with an in-place effect)
          K(_),        \* scenario -> number of container attributes  (attributes are 1..K; names are kept by the harness)
          Recopied(_), \* scenario -> subset of 1..K re-copied by copy
          Eff(_, _),   \* scenario, label -> Seq over 1..K of "none" | "rebind" | "inplace" | "nested"
          MaxCalls, MaxDeep, Dups, DeepAny

VARIABLES scen,   \* chosen scenario
          objs,   \* Seq of [1..K -> cell]     live objects in creation order (1 = seed)
          cells,  \* [cell -> Seq of marks]     cell content
          elems,  \* [1..K -> Seq of marks]     element objects reachable from every copy of the attribute (nested mutation)
          snap,   \* Seq of [1..K -> content]   view of each object when it was created
          hist    \* Seq of [r, l]              the calls made so far
vars == <<scen, objs, cells, elems, snap, hist>>

A == 1..K(scen)
ViewOf(o, cs, es) == [a \in A |-> <<cs[o[a]], es[a]>>]

\* content is abstract: a cell holds the marks of the calls that wrote to it
Init == /\ scen \in Scen
        /\ objs = << [a \in 1..K(scen) |-> a] >>
        /\ cells = [c \in 1..K(scen) |-> <<>>]
        /\ elems = [a \in 1..K(scen) |-> <<>>]
        /\ snap = << [a \in 1..K(scen) |-> << <<>>, <<>> >>] >>
        /\ hist = <<>>

\* cells are allocated deterministically: attribute a of object n gets cell n*100 + a
\* when copied and n*100 + 50 + a when rebound by the method body
CopyCell(n, a) == n * 100 + a
BindCell(n, a) == n * 100 + 50 + a
AttrOfCell(c) == (c % 100) % 50

Call(r, l) ==
    LET n == Len(objs) + 1
        e == Eff(scen, l)
        copied(a) == a \in Recopied(scen)
    IN  /\ objs' = Append(objs, [a \in A |-> IF e[a] = "rebind" THEN BindCell(n, a)
                                            ELSE IF copied(a) THEN CopyCell(n, a) ELSE objs[r][a]])
        /\ cells' = [c \in DOMAIN cells \cup {CopyCell(n, a) : a \in {x \in A : copied(x) /\ e[x] # "rebind"}}
                                       \cup {BindCell(n, a) : a \in {x \in A : e[x] = "rebind"}} |->
                        IF c \in DOMAIN cells THEN
                            (IF \E a \in A : e[a] = "inplace" /\ ~copied(a) /\ objs[r][a] = c THEN cells[c] \o <<n>> ELSE cells[c])
                        ELSE LET a == AttrOfCell(c) IN
                             IF e[a] \in {"inplace", "rebind"} THEN cells[objs[r][a]] \o <<n>> ELSE cells[objs[r][a]]]
        /\ elems' = [a \in A |-> IF e[a] = "nested" THEN elems[a] \o <<n>> ELSE elems[a]]
        /\ snap' = Append(snap, ViewOf(objs'[n], cells', elems'))
        /\ hist' = Append(hist, [r |-> r, l |-> l])
        /\ UNCHANGED scen

Dup(r, how) ==
    LET n == Len(objs) + 1
        copied(a) == how # "copy" \/ a \in Recopied(scen)
    IN  /\ objs' = Append(objs, [a \in A |-> IF copied(a) THEN CopyCell(n, a) ELSE objs[r][a]])
        /\ cells' = [c \in DOMAIN cells \cup {CopyCell(n, a) : a \in {x \in A : copied(x)}} |->
                        IF c \in DOMAIN cells THEN cells[c] ELSE cells[objs[r][AttrOfCell(c)]]]
        /\ snap' = Append(snap, ViewOf(objs'[n], cells', elems))
        /\ hist' = Append(hist, [r |-> r, l |-> how])
        /\ UNCHANGED <<scen, elems>>

\* immutable = False (behaviour outside the property list, DESIGN.md section 7): the same effect WITHOUT the copy step - no new
\* object; a rebind gives the receiver a fresh cell, an in-place effect writes to the cell it has (and so to every object
\* that shares it).  Not part of Next; MC_Mutable composes it.
MCall(r, l) ==
    LET n == Len(hist) + 2
        e == Eff(scen, l)
    IN  /\ objs' = [objs EXCEPT ![r] = [a \in A |-> IF e[a] = "rebind" THEN BindCell(n, a) ELSE objs[r][a]]]
        /\ cells' = [c \in DOMAIN cells \cup {BindCell(n, a) : a \in {x \in A : e[x] = "rebind"}} |->
                        IF c \in DOMAIN cells THEN (IF \E a \in A : e[a] = "inplace" /\ objs[r][a] = c THEN cells[c] \o <<n>> ELSE cells[c])
                        ELSE cells[objs[r][AttrOfCell(c)]] \o <<n>>]
        /\ elems' = [a \in A |-> IF e[a] = "nested" THEN elems[a] \o <<n>> ELSE elems[a]]
        /\ hist' = Append(hist, [r |-> r, l |-> l])
        /\ UNCHANGED <<scen, snap>>

Next == \/ /\ Len(hist) < MaxCalls
           /\ \E r \in 1..Len(objs), l \in LabelsOf(scen) : Call(r, l)
        \/ /\ Len(hist) >= MaxCalls /\ Len(hist) < MaxDeep
           /\ \A i \in 1..Len(hist) : hist[i].l \in HotOf(scen) \cup Dups
           /\ \E r \in 1..Len(objs), l \in HotOf(scen) : Call(r, l)
        \/ /\ DeepAny /\ Len(hist) >= MaxCalls /\ Len(hist) < MaxDeep
           /\ \E i \in 1..Len(hist) : hist[i].l \in Dups
           /\ \E r \in 1..Len(objs), l \in LabelsOf(scen) : Call(r, l)
        \/ /\ Len(hist) < MaxDeep
           /\ \E r \in 1..Len(objs), how \in Dups : Dup(r, how)

Spec == Init /\ [][Next]_vars

\* C01, second half ("two continuations of the same partial query are independent of each other and of the order in which they
\* were made"): what a call returns is a function of the receiver's own lineage - the labels on the path from the seed - and of
\* nothing a sibling did.  Marks are object numbers; LabOf turns them into the label of the call that wrote them.
RECURSIVE Lin(_)
Lin(i) == IF i = 1 THEN <<>> ELSE LET st == hist[i - 1] IN IF st.l \in Dups THEN Lin(st.r) ELSE Append(Lin(st.r), st.l)
LabOf(n) == IF n - 1 \in DOMAIN hist THEN hist[n - 1].l ELSE "?"
LabView(i) == [a \in A |-> << [k \in DOMAIN cells[objs[i][a]] |-> LabOf(cells[objs[i][a]][k])], [k \in DOMAIN elems[a] |-> LabOf(elems[a][k])] >>]
\* (judged at creation time: snap holds the view an object had when it was made)
SnapLab(i) == [a \in A |-> << [k \in DOMAIN snap[i][a][1] |-> LabOf(snap[i][a][1][k])], [k \in DOMAIN snap[i][a][2] |-> LabOf(snap[i][a][2][k])] >>]
Functional == \A i, j \in 1..Len(objs) : Lin(i) = Lin(j) => SnapLab(i) = SnapLab(j)

\* C01: no earlier object is altered by a call
Changed == {<<i, a>> \in (1..Len(objs)) \X A : <<cells[objs[i][a]], elems[a]>> # snap[i][a]}
Frozen == Changed = {}
=============================================================================
