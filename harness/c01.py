"""C01 - builder calls never alter the receiver or earlier-derived objects.

spec:  PT_Sharing (heap model of the @builder copy/effect protocol; generator of call trees), MC_Sharing
       - intended tables: TLC proves Frozen
       - observed tables (measured here on the live code): TLC predicts the histories that break Frozen
judge: J_Frozen (every executed history must keep all earlier objects' observations)
"""
from __future__ import annotations

import copy
import json
import multiprocessing as mp
import os

from harness import catalog, core, observe, tlc

CONTAINERS = (list, set, dict)


# ---------------------------------------------------------------- scenarios
def scenarios(tier: str):
    fams = catalog.families()
    out = []
    for fname, fam in fams.items():
        for sname in fam.seeds:
            if tier == "quick" and fname.startswith("qb_") and fname != "qb_generic" and sname not in ("full", "upsert", "updjoin"):
                continue
            out.append((f"{fname}.{sname}", fname, sname))
    return fams, out


def deep_repr(x, depth=0, seen=None):
    """structural, identity-free description of a value (used only to classify effects)"""
    seen = seen if seen is not None else set()
    if isinstance(x, (str, int, float, bool, type(None), bytes)):
        return repr(x)
    if id(x) in seen or depth > 12:
        return "<cycle>"
    seen = seen | {id(x)}
    if isinstance(x, (list, tuple)):
        return "[" + ",".join(deep_repr(v, depth + 1, seen) for v in x) + "]"
    if isinstance(x, (set, frozenset)):
        return "{" + ",".join(sorted(deep_repr(v, depth + 1, seen) for v in x)) + "}"
    if isinstance(x, dict):
        return "{" + ",".join(sorted(deep_repr(k, depth + 1, seen) + ":" + deep_repr(v, depth + 1, seen) for k, v in x.items())) + "}"
    d = getattr(x, "__dict__", None)
    if d is not None and not isinstance(x, type):
        return type(x).__name__ + "(" + ",".join(k + "=" + deep_repr(v, depth + 1, seen) for k, v in sorted(d.items())) + ")"
    return repr(x)


def measure(fam, sname):
    """observed sharing tables of one scenario: container attributes, which are re-copied by copy.copy,
    and what each label does to each attribute of the receiver-side object graph"""
    seed = fam.seeds[sname.split("!")[0]]()
    attrs = sorted(a for a, v in vars(seed).items() if isinstance(v, CONTAINERS))
    try:
        cp = copy.copy(seed)
        recopied = [a for a in attrs if vars(cp).get(a) is not vars(seed)[a]]
    except Exception:  # noqa
        recopied = []
    eff = {}
    for lname, lab in fam.labels.items():
        catalog.reset_pool()
        r = fam.seeds[sname.split("!")[0]]()
        before = {a: (id(vars(r)[a]), deep_repr(vars(r)[a])) for a in attrs}
        try:
            res = lab.fn(r)
        except Exception:  # noqa
            res = None
        e = {}
        for a in attrs:
            after = deep_repr(vars(r)[a])
            if after != before[a][1]:
                # the receiver's own attribute changed content
                same_cell = res is not None and a in getattr(res, "__dict__", {}) and vars(res)[a] is vars(r)[a]
                e[a] = "inplace" if same_cell else "nested"
            elif res is not None and type(res) is type(r) and a in vars(res) and deep_repr(vars(res)[a]) != before[a][1]:
                e[a] = "rebind" if vars(res)[a] is not vars(r)[a] else "inplace"
            else:
                e[a] = "none"
        eff[lname] = e
    return attrs, recopied, eff


def tla_str_set(xs):
    return "{" + ", ".join('"%s"' % x for x in xs) + "}"


def tables_module(scens, meas, intended: bool) -> str:
    def case(var, items, default):
        return "CASE " + " [] ".join('%s = "%s" -> %s' % (var, k, v) for k, v in items) + " [] OTHER -> " + default

    labels, hot, ks, rec, eff = [], [], [], [], []
    for sid, fname, sname in scens:
        a, r, e = meas[sid]
        # only attributes some label writes in place (or through a shared element) can ever be involved in sharing
        a = [x for x in a if any(l[x] in ("inplace", "nested") for l in e.values())]
        r = [x for x in r if x in a]
        if intended:
            r = sorted(set(r) | {x for l in e.values() for x, k in l.items() if k == "inplace" and x in a})
        labs = sorted(e)
        labels.append((sid, tla_str_set(labs)))
        # labels that pass a shared pool object are always explored deep: re-tagging an argument only shows after several calls
        hot.append((sid, tla_str_set(l for l in labs if "#pool" in l or any(k in ("inplace", "nested") for k in e[l].values()))))
        ks.append((sid, str(len(a))))
        rec.append((sid, "{" + ", ".join(str(a.index(x) + 1) for x in r) + "}"))
        inner = [(l, "<<" + ", ".join('"%s"' % ("rebind" if intended and e[l][x] == "nested" else e[l][x]) for x in a) + ">>") for l in labs]
        # labels without any effect share the default arm
        none = "<<" + ", ".join('"none"' for _ in a) + ">>"
        eff.append((sid, "(" + case("l", [(l, v) for l, v in inner if v != none] or [("-", none)], none) + ")"))
    body = ["---- MODULE MC_SharingGen ----", "EXTENDS MC_Sharing",
            "G_Scen == " + tla_str_set(s[0] for s in scens),
            "G_LabelsOf(s) == " + case("s", labels, "{}"), "G_HotOf(s) == " + case("s", hot, "{}"), "G_K(s) == " + case("s", ks, "0"),
            "G_Recopied(s) == " + case("s", rec, "{}"), "G_Eff(s, l) == " + case("s", eff, "<<>>"), "===="]
    return "\n".join(body) + "\n"


CFG = """CONSTANTS
Scen <- G_Scen
LabelsOf <- G_LabelsOf
HotOf <- G_HotOf
K <- G_K
Recopied <- G_Recopied
Eff <- G_Eff
MaxCalls = %d
MaxDeep = %d
Dups = {%s}
DeepAny = %s
INIT Init
NEXT Next
%s
"""


# ---------------------------------------------------------------- execution
_FAMS = None


def _fams():
    global _FAMS
    if _FAMS is None:
        _FAMS = catalog.families()
    return _FAMS


_BM = None


def _builder_methods():
    global _BM
    if _BM is None:
        _BM = catalog.builder_methods()
    return _BM


def dup(obj, how):
    import pickle

    if how == "copy":
        return copy.copy(obj)
    if how == "deepcopy":
        return copy.deepcopy(obj)
    return pickle.loads(pickle.dumps(obj))


def execute(job):
    """job = (tid, sid, fname, sname, hist) -> event with observation digests after every step"""
    tid, sid, fname, sname, hist = job
    fam = _fams()[fname]
    catalog.reset_pool()
    mutable = sname.endswith("!mutable")
    base_name = sname.split("!")[0]
    seed = fam.mutable_seeds[base_name]() if mutable and base_name in fam.mutable_seeds else fam.seeds[base_name]()
    if mutable:
        seed.immutable = False   # PT_Sharing!MCall: builder calls work on the receiver itself (already so for the seeds created that way)
    objs = [seed]
    obs = [observe.render_all(seed)]
    ev = {"tid": tid, "obs0": observe.digest(obs[0]), "steps": []}
    detail = []
    for k, st in enumerate(hist):
        r, l = st["r"], st["l"]
        recv = objs[r - 1] if r - 1 < len(objs) else None
        res, kind, exc = None, "exc", ""
        if recv is None:
            # the receiver is the result of a call that raised: the history is not executable from here on
            ev["steps"].append({"r": r, "l": l, "res": "skip", "exc": "", "obs": [observe.digest(o) if o is not None else "-" for o in obs] + ["-"]})
            objs.append(None)
            obs.append(None)
            continue
        try:
            res = dup(recv, l) if l in ("copy", "deepcopy", "pickle") else fam.labels[l].fn(recv)
            kind = "same" if res is recv else "new"
            if kind == "same" and l in fam.labels and catalog.owner(recv, fam.labels[l].meth) not in _builder_methods():
                kind = "nonbuilder"  # e.g. Term.replace_table: documented to return self, not a @builder method
        except Exception as ex:  # noqa
            exc = type(ex).__name__
        objs.append(res if kind == "new" else None)
        if l in ("copy", "deepcopy", "pickle") and kind == "same":
            objs[-1] = None
        now = [observe.render_all(o) if o is not None else None for o in objs]
        for v in range(len(obs)):
            if now[v] != obs[v]:
                recv_cls, meth = catalog.owner(recv, fam.labels[l].meth) if l in fam.labels else (type(recv).__name__, l)
                detail.append({"step": k + 1, "victim": v + 1, "recv": r, "cls": recv_cls, "meth": meth, "label": l,
                               "keys": observe.diff(now[v], obs[v])[:4],
                               "before": obs[v].get(observe.diff(now[v], obs[v])[0]), "after": now[v].get(observe.diff(now[v], obs[v])[0]),
                               "attrs": changed_attrs(objs[v], l)})
        obs = now
        ev["steps"].append({"r": r, "l": l, "res": kind, "exc": exc, "obs": [observe.digest(o) if o is not None else "-" for o in now]})
    ev["detail"] = detail
    ev["mut"] = mutable
    return ev


def changed_attrs(obj, label):
    return []


def _init_worker(subset):
    observe.SUBSET = subset


def run_histories(jobs, procs=16, subset=None):
    observe.SUBSET = subset
    if len(jobs) < 2000:
        return [execute(j) for j in jobs]
    with mp.Pool(procs, initializer=_init_worker, initargs=(subset,)) as pool:
        return pool.map(execute, jobs, chunksize=500)


# ---------------------------------------------------------------- check
def coverage_gaps(fams):
    """builder methods of the live package that no label exercises"""
    have = set()
    for fam in fams.values():
        for sname, mk in fam.seeds.items():
            try:
                seed = mk()
            except Exception:  # noqa
                continue
            for lab in fam.labels.values():
                have.add(catalog.owner(seed, lab.meth))
    return sorted(catalog.builder_methods() - have), have


def _t(msg, t0=[None]):
    import sys
    import time

    now = time.time()
    if t0[0] is not None:
        print(f"  [{now - t0[0]:.1f}s] {msg}", file=sys.stderr)
    t0[0] = now


def run(tier: str, prop: str = "C01") -> int:
    rep = core.Report(prop, tier)
    _t("start")
    fams, scens = scenarios(tier)
    if prop != "C15":
        for fam in fams.values():
            for l in [x for x in fam.labels if "!c15" in x]:
                del fam.labels[l]
    gaps, have = coverage_gaps(fams)
    meas = {sid: measure(fams[fname], sname) for sid, fname, sname in scens}
    dups = '"copy", "deepcopy", "pickle"' if prop == "C15" else ""
    maxcalls, maxdeep = (2, 4)
    deepany = "FALSE"
    if prop == "C15":
        # duplication histories: [dup, call], [call, dup] everywhere; [call, dup, call] on the "full" seeds (thorough)
        maxcalls, maxdeep = (2, 3 if tier == "thorough" else 2)
        deepany = "TRUE" if tier == "thorough" else "FALSE"
        if tier == "thorough":
            scens = [s for s in scens if s[2] in ("full", "upsert", "one", "filtered", "alias", "cmp", "on", "cols", "union", "drop", "load")]
        # every history of interest contains a duplication step

    # 1. design: with the intended tables Frozen is an invariant of the protocol
    r0 = tlc.run("MC_SharingGen", CFG % (maxcalls, maxdeep, dups, deepany, "INVARIANT Frozen\nINVARIANT Functional"),
                 extra_files={"MC_SharingGen.tla": tables_module(scens, meas, True)}, workers=16, heap="8g", timeout=3000)
    rep.add_tlc(r0)
    _t("intended model checked")
    if r0.violation or not r0.ok:
        raise core.MachineryError(f"Frozen fails on the INTENDED sharing tables (spec bug): {r0.violation}\n{r0.raw_tail[-1500:]}")
    # 2. observed tables: histories + the model's predictions
    r1 = tlc.run("MC_SharingGen", CFG % (maxcalls, maxdeep, dups, deepany, "INVARIANT Emit"),
                 extra_files={"MC_SharingGen.tla": tables_module(scens, meas, False)}, workers=16, heap="8g", timeout=3000)
    rep.add_tlc(r1)
    _t("observed model explored")
    hs = r1.json_tagged("H")
    if len(hs) != r1.distinct:
        raise core.MachineryError(f"generator printed {len(hs)} histories for {r1.distinct} states")
    by = {s[0]: s for s in scens}
    jobs, pred = [], {}
    for h in hs:
        if not h["h"]:
            continue
        if prop == "C15" and not any(st["l"] in ("copy", "deepcopy", "pickle") for st in h["h"]):
            continue
        sid, fname, sname = by[h["s"]]
        tid = len(jobs)
        jobs.append((tid, sid, fname, sname, h["h"]))
        pred[tid] = bool(h["ch"])
    if prop == "C15":
        # builders created with immutable=False (PT_Sharing!MCall): duplicate, then call on the duplicate / on the original
        for fname in ("qb_generic", "qb_postgresql", "qb_mysql"):
            fam = fams[fname]
            labs = [l for l in fam.labels if "#pool" not in l and not l.startswith(("auto#", "wrap#"))]
            for sname in ("from", "full", "insert", "update"):
                sid = f"{fname}.{sname}!mutable"
                for how in ("copy", "deepcopy", "pickle"):
                    for l in labs:
                        for r in (1, 2):
                            tid = len(jobs)
                            jobs.append((tid, sid, fname, sname + "!mutable", [{"r": 1, "l": how}, {"r": r, "l": l}]))
                            pred[tid] = False
    _t("histories parsed")
    events = run_histories(jobs, subset=["generic", "mysql", "postgresql"] if tier == "quick" else None)
    _t(f"{len(jobs)} histories executed")
    # lineage oracle: the digest every lineage (labels from the seed) gives when executed alone as a chain; a sibling-made history must give the same
    DUPS = ("copy", "deepcopy", "pickle")
    chain = {}
    lins = {}
    for e in events:
        sid, hist = jobs[e["tid"]][1], jobs[e["tid"]][4]
        lin = {1: ()}
        for k, st in enumerate(hist):
            base = lin.get(st["r"])
            lin[k + 2] = None if base is None else (base if st["l"] in DUPS else base + (st["l"],))
        lins[e["tid"]] = lin
        is_chain = all(st["r"] == k + 1 for k, st in enumerate(hist)) and not any(st["l"] in DUPS for st in hist)
        if is_chain:
            for k, st in enumerate(e["steps"]):
                if st["res"] == "new" and lin[k + 2] is not None:
                    chain.setdefault((sid, lin[k + 2]), st["obs"][k + 1])
    for e in events:
        sid, lin = jobs[e["tid"]][1], lins[e["tid"]]
        for k, st in enumerate(e["steps"]):
            ln = lin.get(k + 2)
            # (labels that pass a shared pool object are exempt: the automatic alias of an argument is the one permitted side effect)
            wrapped = any(x["l"].startswith("wrap#") for x in jobs[e["tid"]][4])   # (the receiver of a wrap label legitimately changed: its alias)
            st["lin"] = "" if ln is None or st["res"] != "new" or wrapped or any("#pool" in x for x in ln) else chain.get((sid, ln), "")
    # 3. judge
    slim = [{"tid": e["tid"], "obs0": e["obs0"], "mut": bool(e.get("mut")), "steps": [{k: s[k] for k in ("r", "l", "res", "obs", "lin")} for s in e["steps"]]} for e in events]
    results = tlc.judge_shards("J_Frozen", "INIT Init\nNEXT Next\n", slim, shard=max(2000, len(slim) // 16 + 1), heap="3g")
    rep.add_tlc(results)
    _t("judged")
    if sum(max(r.distinct - 1, 0) for r in results) != len(events):
        raise core.MachineryError("J_Frozen did not consume every event")
    bad = {}
    for r in results:
        for v in r.json_tagged("V"):
            bad[v["tid"]] = v["bad"]
    rep.traces = len(events)
    rep.evaluations = len(events)
    agree = {"model_yes_real_yes": 0, "model_yes_real_no": 0, "model_no_real_yes": 0, "model_no_real_no": 0}
    for e in events:
        tid = e["tid"]
        rep.distinct.add((jobs[tid][1], json.dumps(jobs[tid][4])))
        real = tid in bad
        agree[("model_yes" if pred[tid] else "model_no") + ("_real_yes" if real else "_real_no")] += 1
    for tid in sorted(bad, key=lambda t: (len(jobs[t][4]), t)):
        e = events[tid]
        _, sid, fname, sname, hist = jobs[tid]
        for step, victim, kind in bad[tid]:
            if kind in ("dup-raises", "dup-differs"):
                cls = type(_fams()[fname].seeds[sname.split("!")[0]]()).__name__
                rep.discrepancy([[kind, cls, hist[step - 1]["l"]]], {"scenario": sid, "history": hist, "step": step,
                                                                      "exc": e["steps"][step - 1]["exc"]},
                                what="duplicate raises or is not observed like its original")
                continue
            if kind == "sibling-dependent":
                lab = fam_label_owner(fname, sname, hist[step - 1]["l"])
                rep.discrepancy([["sibling-dependent"] + lab], {"scenario": sid, "history": hist, "step": step,
                                                               "lineage": list(lins[tid][step + 1] or ())},
                                what="the same call on the same partial query returns something else after a sibling continuation was made")
                continue
            if kind != "changed":
                rep.discrepancy([[kind, fname.split("_")[0], hist[step - 1]["l"]]], {"scenario": sid, "history": hist, "step": step},
                                what="a builder call did not return a new object")
                continue
            det = next((d for d in e["detail"] if d["step"] == step and d["victim"] == victim), None)
            if det is None:
                raise core.MachineryError(f"judge and executor disagree on event {tid}")
            role = "receiver" if victim == det["recv"] else "other"
            sig = [det["cls"], det["meth"]]
            if prop == "C15":
                # which duplication mechanism coupled the two objects
                how = next((st["l"] for st in hist if st["l"] in ("copy", "deepcopy", "pickle")), "?")
                sig = [how, det["cls"], det["meth"]]
            rep.discrepancy([sig],
                            {"scenario": sid, "history": hist, "step": step, "victim": victim, "victim_is": role,
                             "changed": det["keys"], "before": det["before"], "after": det["after"]},
                            what=f"{det['cls']}.{det['meth']} alters an earlier object")
    for e in events[:: max(1, len(events) // 4)][:4]:
        rep.sample({"scenario": jobs[e["tid"]][1], "history": jobs[e["tid"]][4], "steps": [{k: s[k] for k in ("res", "exc")} for s in e["steps"]],
                    "verdict": "frozen" if e["tid"] not in bad else "changed"})
    rep.extra.update({"scenarios": len(scens), "builder_methods_in_package": len(catalog.builder_methods()),
                      "builder_methods_exercised": len(have & catalog.builder_methods()), "uncovered_builder_methods": [list(g) for g in gaps],
                      "heap_model_vs_real": agree})
    if gaps:
        # a builder method no hand-written or signature-derived label reaches: not an alarm and not a machinery failure -
        # the evidence says what was not exercised
        import sys
        print(f"NOTE {prop}: builder methods not exercised (no label accepted by the method): {[list(g) for g in gaps]}", file=sys.stderr)
        rep.assumptions_extra = [f"builder methods not exercised: {[list(g) for g in gaps]}"]
    rep.rule = ("TLC enumerates every call tree of PT_Sharing (any live object as receiver) of <= 2 calls over all labels of every "
                "scenario (class x seed state), 3 calls over labels with an observed in-place effect; each is executed on the real library "
                "with all live objects observed (6 contexts x inline/param + metadata) after every step; distinct = (scenario, history)")
    rep.exhaustive = True
    rep.assumptions = ["arguments are built fresh inside every call except the shared-pool labels (join#pool*, from_#pool*), which pass one subquery object to several calls",
                       "observation = renderings + term metadata; a change invisible to all 13 renderings is not a change"] + getattr(rep, "assumptions_extra", [])
    return rep.finish()


def fam_label_owner(fname, sname, label):
    fam = _fams()[fname]
    if label not in fam.labels:
        return [fname.split("_")[0], label]
    try:
        return list(catalog.owner(fam.seeds[sname.split("!")[0]](), fam.labels[label].meth))
    except Exception:  # noqa
        return [fname.split("_")[0], label]


def replay(path: str) -> int:
    ex = json.load(open(path))["example"]
    fname, sname = ex["scenario"].split(".", 1)
    ev = execute((0, ex["scenario"], fname, sname, ex["history"]))
    print(json.dumps({"history": ex["history"], "steps": [{k: s[k] for k in ("r", "l", "res", "exc")} for s in ev["steps"]], "changes": ev["detail"]}, indent=1))
    return 0
