#!/bin/bash
# Maintenance: apply a set of behaviour-preserving changes (dir with */patch.diff, searched recursively) TOGETHER to a scratch worktree of /repo
# and run every quick check on it (VERIF_REPO); any exit status other than 0 is a false alarm (or a broken check) to investigate.
# usage: tools/benign_all.sh <dir> [check ids...]
cd "$(dirname "$0")/.."
DIR=$1; shift
checks=("$@"); [ ${#checks[@]} -eq 0 ] && checks=(C01 C02 C03 C04 C05 C06 C07 C08 C09 C10 C11 C12 C13 C14 C15 C16 C17 C18)
WT=$(mktemp -d /tmp/benign-XXXXXX)
git -C /repo worktree add -q --detach "$WT/r" HEAD || exit 2
mkdir -p "$WT/evidence" "$WT/replays"
for p in $(find "$DIR" -name patch.diff | sort); do
  if git -C "$WT/r" apply "$p" 2>/dev/null; then echo "applied $p"; else echo "SKIPPED (conflicts with an earlier one) $p"; fi
done
echo "suite: $(cd $WT/r && PYTHONPATH=$WT/r /venv/bin/python -m pytest -q -p no:cacheprovider 2>&1 | tail -1)"
rc=0
for c in "${checks[@]}"; do
  VERIF_REPO="$WT/r" VERIF_SCRATCH="$WT" VERIF_EVIDENCE_DIR="$WT/evidence" VERIF_REPLAY_DIR="$WT/replays" ./check "$c" --tier quick > "$WT/log-$c" 2>&1; r=$?
  echo "$c exit=$r $(tail -n 1 $WT/log-$c | cut -c1-150)"
  if [ $r -ne 0 ]; then rc=1; grep -A1 '^VIOLATION' "$WT/log-$c" | cut -c1-500 | head -12; grep -E "Error|MACHINERY" "$WT/log-$c" | head -5; fi
done
git -C /repo worktree remove --force "$WT/r"; rm -rf "$WT"
exit $rc
