"""Maintenance: write one self-contained task file per property for the mutant-writing sub-agents (they get the property text and a
scratch worktree only - nothing from /verif).   usage: python3 tools/mk_prompts.py <round, e.g. R8> <base dir, e.g. /tmp/wt>
creates <base>/<round>C01.. worktrees of /repo HEAD, <base>/prompts<round>/Cxx.txt, <base>/out<round>/"""
import json
import os
import subprocess
import sys

rnd, base = sys.argv[1], sys.argv[2]
props = [json.loads(l) for l in open('/verif/properties.jsonl')]
TMPL = '''You are helping evaluate a verification framework by writing realistic *property-breaking* code changes (mutants) for the Python library tortoise/pypika-tortoise (an immutable SQL query builder). You work ONLY inside your own scratch git worktree of the library at {wt} (do not touch /repo, do not look at or touch /verif, do not read other directories under {base}). Python interpreter: /venv/bin/python. Always run python/pytest with the environment variable PYTHONPATH={wt} and from cwd {wt}, so that the worktree's copy of the package is the one imported (check with `python -c "import pypika_tortoise; print(pypika_tortoise.__file__)"`). The existing test suite: `cd {wt} && PYTHONPATH={wt} /venv/bin/python -m pytest -q -p no:cacheprovider` (867 tests, ~3 s, all pass at start). There is no network.

The semantic property your changes must BREAK:

  id: {id}
  title: {title}
  statement: {statement}
  quantifier: {qtext}
  code the property is anchored in: {files}
  mechanisms in the code that are meant to make it hold: {mech}

Task: produce TWO independent changes (call them "a" and "b"), at different code sites / of different flavour, each of which:
  1. is a small, realistic change to the library source under {wt}/pypika_tortoise (the kind of regression a plausible refactoring, optimisation, or feature addition could introduce - not sabotage that looks absurd);
  2. still imports/compiles and still passes the ENTIRE existing test suite unchanged (all 867 tests; do not edit tests);
  3. makes the library VIOLATE the property above on at least one concrete input/program - i.e. behaviour that satisfied the property before the change violates it after;
  4. needs something SPECIFIC to manifest - a particular multi-step sequence of builder calls, a branching history, an unusual input value/name, a particular dialect + clause combination, a particular nesting, two cooperating sites that each look fine alone - and is NOT exposed at once by ordinary simple use (since then the tests would catch it).
Important: the unchanged library already has some pre-existing deviations from this property; your change must introduce a NEW violation (your demonstration must PASS on the unchanged code and FAIL with your change), not merely re-exhibit an old one.

{steer}

For each change X in (a, b) write, under {out}/X/ :
  - patch.diff : `git diff` of the change relative to HEAD of the worktree (must apply with `git apply` to a clean checkout);
  - demo.py : a small standalone program (plain asserts; exit code 0 = property holds on this input, non-zero = violated) that demonstrates the violation: it must exit 0 on the unchanged library and exit non-zero with the change applied. It should take the package from PYTHONPATH (just `import pypika_tortoise`). The demo should check the PROPERTY (as stated) on the specific input, not compare against an arbitrary hard-coded string when avoidable;
  - meta.json : {{"property": "{id}", "summary": "<one line>", "site": "<file:function>", "needs": "<what specific input/sequence/dialect is needed for it to manifest>", "why_tests_pass": "<one line>"}}.
Procedure per change: edit -> run the full suite (must be 867 passed) -> run demo (must fail) -> save `git diff > patch.diff` -> `git checkout -- .` -> run demo again (must pass) -> then start the next change from the clean tree. Leave the worktree clean (git checkout -- .) at the end. Do NOT commit anything.

In your final message report, for each of a and b: one-line summary, the site, what it needs to manifest, and confirm the three runs (suite passes with change; demo fails with change; demo passes without). Be concise.'''
steer = open(os.path.join(os.path.dirname(__file__), "steer_%s.txt" % rnd)).read().strip() if os.path.exists(os.path.join(os.path.dirname(__file__), "steer_%s.txt" % rnd)) else ""
os.makedirs(f"{base}/prompts{rnd}", exist_ok=True)
os.makedirs(f"{base}/out{rnd}", exist_ok=True)
for p in props:
    wt, out = f"{base}/{rnd}{p['id']}", f"{base}/out{rnd}/{p['id']}"
    if not os.path.exists(wt):
        subprocess.run(["git", "-C", "/repo", "worktree", "add", "-q", "--detach", wt, "HEAD"], check=True)
    mech = "; ".join(f"{m['name']} [{m['where']}]" for m in p['anchors']['mechanism'])
    s = TMPL.format(wt=wt, out=out, base=base, id=p['id'], title=p['title'], statement=p['statement'], qtext=p['quantifier']['text'],
                    files=", ".join(p['anchors']['files']), mech=mech, steer=steer)
    open(f"{base}/prompts{rnd}/{p['id']}.txt", "w").write(s)
print("prompts:", len(props))
