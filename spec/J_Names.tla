------------------------------- MODULE J_Names -------------------------------
(* Judge for C11, automatic aliases: the names under which the sources of   *)
(* ONE statement level can be addressed (alias, else table name) are        *)
(* pairwise distinct, and every qualifier used at that level is one of them *)
(* (PT_Builder!ExposedOK).                                                  *)
EXTENDS PT_Builder, Json, IOUtils
Events == ndJsonDeserialize(IOEnv.TRACE_FILE)
VARIABLE i
Init == i = 1
Next == /\ i <= Len(Events)
        /\ LET e == Events[i] IN IF e.exc = "" /\ ExposedOK(e.names, e.quals) THEN TRUE
                                 ELSE PrintT("V " \o ToJson([tid |-> e.tid, why |-> IF e.exc # "" THEN "raises" ELSE ExposedWhy(e.names, e.quals)]))
        /\ i' = i + 1
Spec == Init /\ [][Next]_i
=============================================================================
