"""Regenerates MANIFEST.json from the table below (maintenance tool)."""
import json
import os

ROOT = os.path.dirname(os.path.dirname(os.path.abspath(__file__)))
TLC_NOTE = ("Trusted: TLC 1.8 + CommunityModules Json/IOUtils, CPython, the executor's mapping from spec descriptors to API "
            "calls, the Python SQL lexer where TLC has not re-lexed the text. Bounded: exhaustive only within the constant "
            "sets / depths stated in the evidence file.")

CHECKS = {
    "C06": dict(
        text="TLC enumerates every expression tree of the bounded grammar (all parent/child/side operator triples; thorough: both "
             "operands compound and depth 3), model-checks the intended bracket rule of the spec against the spec's own Pratt parser "
             "(ParseBack), then each tree is built with the real operators, rendered under six dialect contexts and the real token "
             "stream is parsed back by the same TLA+ parser inside TLC; canonical trees must agree. Criteria combined by the API rather than by an operator (repeated "
             "filter / where / having / prewhere / conflict-where calls, filter(a, b), Criterion.all / any) are parsed back against the conjunction / disjunction of their parts; the trees are also rendered at eight clause positions; operands that begin and end with a bracketed group, double / triple negations over groups and scalar subqueries as operands are part of both tiers. A failing tree is "
             "explained only by a known finding naming the same parent / child / side edge UNDER THE SAME enclosing operator. Exhaustive within the bound, "
             "which is the level the property (a product over operator triples) needs.",
        ref="6/C06", technique="TLA+ reference parser (PT_Expr) + TLC enumeration of trees + trace judging of real renderings (J_C06)"),
    "C01": dict(
        text="PT_Sharing models the @builder protocol as a heap (shallow copy shares or re-copies each container attribute; a method body "
             "rebinds, appends in place, or mutates a shared element). TLC proves Frozen for the intended sharing tables, explores the model "
             "with the tables MEASURED on the live code (predicting violating histories), and the same run enumerates every call tree (any live "
             "object as receiver) of <=2 calls over all ~50 labels of each of ~90 scenarios (class x seed state x dialect builder, incl. tables taken as attributes of one Schema object), 3 calls over labels "
             "with an observed in-place effect. Every tree is executed on the real library with all live objects observed after each step; "
             "J_Frozen (TLC) checks each recorded execution against the protocol: no earlier object changes (Frozen) and every object made in a branching "
             "history equals the one its own lineage gives when executed alone (PT_Sharing!Functional: sibling independence). Labels that pass one shared "
             "un-aliased subquery to several calls are explored to depth 4. Coverage of the package's @builder methods is measured by introspection; a method "
             "the catalogue does not name gets signature-derived labels, one that accepts none of them is reported in the evidence.",
        ref="6/C01", technique="TLA+ heap model of copy/effect sharing (PT_Sharing) explored by TLC with measured tables; call trees replayed on the code; TLC trace judge (J_Frozen)"),
    "C08": dict(
        text="PT_Dialect gives the convention table Conv[d] (identifier quote, placeholder style and numbering, boolean / array / interval forms, set-operand "
             "bracketing, row-limiting vocabulary), Broken(toks, d) = the conventions a token stream breaks, and Norm (conventions erased). TLC enumerates 13 "
             "dialect-sensitive elements (incl. backslash strings and JSON documents: the escape convention) x 18 nesting constructs (incl. a third set-operation operand built by a class with the other bracket habit, a select as function argument in the select list / in ORDER BY, as comparison operand, as CASE result, the set operation's own ORDER BY, INSERT .. SELECT with and without an alias on the target) at depth 1 and 2; each program is rendered under the six dialect classes twice - natively built, and "
             "with the inner parts built by the generic classes - and J_C08 (TLC) requires: no convention broken at any depth, mixed-built = natively built token "
             "streams, and Norm-equality over all ordered dialect pairs for the neutral subset.",
        ref="6/C08", technique="TLA+ convention table and normalisation (PT_Dialect); TLC element x nesting product rendered natively and mixed; TLC judge (J_C08)"),
    "C09": dict(
        text="PT_Builder specifies the setter semantics (limit/offset/slice/fetch_next/top: last writer wins per slot) and, per dialect, the row-limiting "
             "tail PagTail, its parameter order PagParams and PagGrammatical. TLC enumerates every sequence of <=2 (quick) / <=3 (thorough) setter calls "
             "with zero and positive values x with/without ORDER BY x 4 nesting positions (top level, subquery in FROM, set-operation operand, the set "
             "operation itself); each history is executed under the six dialect classes inline and parameterised, and TLC (J_C09) folds the logged calls "
             "through the spec and compares the real tail tokens and parameter list with the expected ones; the head of the SELECT (DISTINCT, SQL Server's TOP) is compared with PT_Builder!SelHead for every order of the calls (J_Head). Exhaustive over the stated product.",
        ref="6/C09", technique="TLA+ builder state machine with per-dialect PagTail (PT_Builder); TLC-generated setter histories replayed; TLC trace judge (J_C09)"),
    "C10": dict(
        text="PT_Embed gives per embedding position what may surround the stand-alone text (brackets, alias) and the relation EmbedsVerbatim: outer tokens = "
             "frame-before . stand-alone inner tokens (placeholders renumbered) . frame-after, where the frame is read off the same outer statement around a "
             "benign inner query and must agree with Embed (FrameOK). TLC enumerates ~97 inner queries - an aliased term of 9 term classes in each inner clause "
             "(select, where, group by, having, order by, join on, paginated), nested and parameter-carrying inner queries, set operations, queries with the dialect's own clause (MySQL modifiers, DISTINCT ON, TOP) or hints, selects without a FROM of their own, DML..RETURNING bodies (PostgreSQL CTEs) - x 33 "
             "positions (FROM, JOIN, IN, comparison, select item, CTE body, INSERT..SELECT, set-operation base / operand, CREATE TABLE AS, operands inside bracketed / "
             "negated groups, JOIN ON, HAVING, function argument, CASE branch, ORDER BY / GROUP BY item, SET and DO UPDATE value, right operand of arithmetic, operand after an opted-out set-operation operand, and the main ones again inside an outer statement that qualifies its columns) x 6 dialects. Both renderings come from the real "
             "code (no reference renderer); J_C10 (TLC) evaluates the relation and reports the inner clause where the embedded text departs.",
        ref="6/C10", technique="TLA+ embedding relation (PT_Embed) over two real renderings; TLC-enumerated inner query x position product; TLC judge (J_C10)"),
    "C11": dict(
        text="PT_Builder specifies the namespace decision NeedsNS (joins, several FROM items, subquery in FROM, UPDATE..FROM, WHERE on a foreign table - "
             "decided against the current sources), the qualifier of every reference QualOf (alias always, name iff namespaces are needed) and name positions "
             "(INSERT columns, SET targets, ON CONFLICT targets, USING) that stay bare, conflict predicates and DO UPDATE assignments (always qualified; MySQL's ON DUPLICATE KEY "
             "UPDATE never); QualSeq gives the expected <<clause, qualifier, column>> sequence per "
             "statement kind and dialect, and TLC checks RefQualified on it. TLC grows ~65k statements: 5 kinds x 5 base source shapes (plain, aliased, schema, "
             "subquery, CTE reference) x 10 second-source shapes (FROM / JOIN ON / USING / CROSS over plain, aliased, subquery) x up to 2 (quick) / 3 (thorough) clause calls (select, where, prewhere, group by, having, order by, set, returning, conflict target / handler) holding a field of an in-scope or foreign source. "
             "Each runs under the six dialect classes; J_C11 (TLC) folds the logged calls and compares the qualifier projection of the real tokens with QualSeq. Statements over 2-3 un-aliased subqueries (flat, nested, doubly nested; from_ / join in every order) are judged by PT_Builder!ExposedOK: the automatic sqN names of one statement level are pairwise distinct and every qualifier names one (J_Names).",
        ref="6/C11", technique="TLA+ builder state machine with NeedsNS/QualSeq (PT_Builder); TLC-grown statements replayed; TLC trace judge on the qualifier projection (J_C11)"),
    "C12": dict(
        text="PT_Builder!AliasSeq gives the expected <<clause, alias>> occurrences: a select item prints its alias once, GROUP BY / ORDER BY write an alias only "
             "if the select list defines it (and the dialect allows GROUP BY aliases), operands never print theirs; TLC checks RefAliasOnce on it. TLC enumerates "
             "(14 PT_Expr term kinds + 23 further Term classes built by name, each carrying a unique alias) x 50 positions (defining positions, GROUP BY / ORDER BY over a column that is merely NAMED like an alias, the term as the whole WHERE / HAVING / JOIN ON condition, every operand "
             "slot of arithmetic / function / CASE / comparison incl. right operands, DISTINCT aggregates and window functions, WHERE, HAVING, GROUP BY, ORDER BY, JOIN ON, "
             "INSERT values, SET values, GROUP BY / ORDER BY by alias or by expression, references made before the select list defines the alias, after it was replaced "
             "by *, or with a late alias) x 6 dialects, each also inside a branching, render-interleaved history (thorough: also parameterised and embedded as FROM / IN "
             "subquery, CTE, UNION operand); ORDER BY of a set operation follows PT_Builder!SetopAliasSeq (an alias is a reference only if the FIRST operand defines it; every term class in the first / a later / both operands; judge J_C12S). J_C12 (TLC) folds the calls and classifies differences of the alias projection of the real tokens as "
             "missing / spurious / duplicated / dangling-reference. Term subclasses of the live module that no generated kind reaches are listed in the evidence.",
        ref="6/C12", technique="TLA+ AliasSeq over the builder state (PT_Builder); TLC class x position product replayed; TLC trace judge on the alias projection (J_C12)"),
    "C13": dict(
        text="PT_Builder gives for every abstract state the statement kind, completeness and the depth-0 clause sequence ClauseSeq per dialect (rank tables of "
             "DESIGN App. C); TLC checks Confluent on the spec (adjacent independent calls commute in the model) while enumerating every subset of <=3 (quick) / "
             "<=4 (thorough) calls of each family pool (20 SELECT, 10 INSERT/upsert, 8 UPDATE, 8 DELETE calls) and all its permutations. Every order is executed under "
             "the six dialect classes (under the generic one inside a branching history with every intermediate builder rendered); J_C13 (TLC) folds the logged calls through the spec and requires: clause sequence of the real tokens = ClauseSeq, balanced "
             "brackets/quotes, empty string for incomplete states, and ONE text for all orders that keep the relative order within each clause. Differences are "
             "attributed to adjacent transpositions. SQLite's parser prepares the SQLite-dialect statements of the SQLite-supported subset. CREATE TABLE has its own spec (PT_Ddl: option flags, accumulating "
             "column / UNIQUE / PERIOD FOR lists, DSeq), generator (MC_Ddl: every subset of <=3/4 of 10 calls in every order, Commutes checked on the spec) and judge (J_Ddl).",
        ref="6/C13", technique="TLA+ builder state machine with ClauseSeq/Complete (PT_Builder); TLC-enumerated permutations replayed; TLC trace judge (J_C13); sqlite3 prepare"),
    "C14": dict(
        text="PT_Builder!Raises and RenderRaises give, for every call in every abstract state, the exception class that must be raised (join "
             "criterion sources vs FROM / joined / CTE / joined item under the library's table equality; conflict-handler routing; statement-kind "
             "one-shots), and TLC checks GuardsExact on the spec (agreement with an independently written availability predicate) on all "
             "join programs. TLC grows every program of the families by transitions: joins (5 base shapes x CTE x prior join x 10 items x ~330 criteria "
             "over 15 source shapes incl. aliased, schema, two databases, temporal, equal-but-distinct, aliased and un-aliased subqueries, set operation, CTE, columns written without a table; both operand orders; function operands), all "
             "orders of <=3 conflict-handler calls on INSERT .. VALUES and INSERT .. SELECT, all <=3-call statement-kind switches, set-operation arities, CASE, RETURNING x statement kind x 19 term shapes (own / joined / foreign column, star, expression, CASE, aggregate, function and tuple over a foreign column), "
             "DDL / temporal / rollup one-shots. Each is executed on the real library and J_C14 (TLC) compares every call's and the render's exception "
             "class with the spec in both directions (missed / false rejection / wrong class); a call that was refused must leave the alias of the tables passed to it as it was.",
        ref="6/C14", technique="TLA+ guard functions over the abstract builder state (PT_Builder!Raises); TLC-grown programs replayed; TLC trace judge (J_C14)"),
    "C15": dict(
        text="Same heap model and judge as C01 with the duplication actions enabled: PT_Sharing!Dup models copy.copy (shares what __copy__ does "
             "not re-copy), deepcopy and pickle (everything fresh); TLC proves Frozen for the intended tables and enumerates every history "
             "[dup, call] / [call, dup] over all labels of all 85 scenarios and the three mechanisms (thorough: [call, dup, call] on the rich seeds). "
             "Each is executed on the real library; J_Frozen requires that duplication never raises, that the duplicate is observed exactly "
             "like its original (6 contexts x inline/param + metadata), and that later calls on either side leave the other unchanged. Builders created with "
             "immutable=False (from their first call on) are duplicated too (PT_Sharing!MCall: the receiver coming back is their protocol; the duplicate / the original must still not move).",
        ref="6/C15", technique="TLA+ heap model with Dup actions (PT_Sharing) as history generator; replay on the code; TLC trace judge (J_Frozen)"),
    "C02": dict(
        text="PT_RenderConc models k renderer threads over one shared object as interleaved attribute micro-steps with a write footprint; TLC "
             "proves for every interleaving that completed renders equal the sequential result when the footprint is empty and returns the "
             "breaking schedule when it is not. The footprint is MEASURED on the code (structural digest of the object graph around every "
             "render pass). ~2300 renderable objects (every catalogue seed and one-call successor, hash-order probes incl. statements naming one element several times in every list-valued clause) are rendered 3x under "
             "6 contexts x inline/param, in 4-9 other interpreter processes with different PYTHONHASHSEED and from 6 threads; J_Render (TLC) "
             "requires every recorded render to be the spec action: digest unchanged (also DURING the render: probe tables report the statement's shape while it is being "
             "rendered, so a write that is undone before get_sql returns is seen), output equal to the first output of that context anywhere, "
             "caller-supplied parameterizer only appended to, and equal to what a fresh equal object gives when rendered under that one context only "
             "(no render depends on what was rendered before).",
        ref="6/C02", technique="TLA+ interleaving model with measured write footprint (PT_RenderConc) + TLC trace judge of recorded renders (J_Render)",
        note=TLC_NOTE + " Thread schedules and hash seeds are sampled; the all-interleavings claim is on the model, bound to the code by the measured footprint."),
    "C03": dict(
        text="PT_RefSql!RefFull is the reference transcription of an abstract statement (PT_Builder state) into plain SQLite text: every operator application bracketed, "
             "every column qualified by the alias-or-name of its source, explicit AS, LIMIT -1 for a lone offset. TLC grows programs of the relational core (12 bases: "
             "plain / aliased / inner, left, cross, comma and self joins / subquery source / grouped / insert / upsert / update plain, FROM, JOIN / delete; clause units "
             "with ~150 select terms covering every arithmetic parent/child/side pair, ~48 criteria (incl. membership in an empty list), DISTINCT, ORDER BY, LIMIT/OFFSET/slice, HAVING, window functions (partition / order lists built call by call, ROWS / RANGE frames; LAG / LEAD with their optional arguments, ranking and value functions), ORDER BY a column name that a select item carries as alias, "
             "INSERT rows / INSERT..SELECT / REPLACE, upsert actions incl. upsert from SELECT, SET expressions; quick: one unit, thorough: two) and prints each with RefFull and "
             "its suspects; SELECT programs are also nested (FROM / IN subquery, sorted derived table under an outer LIMIT, unwrapped UNION / INTERSECT / EXCEPT). Programs whose "
             "plain transcription the engine rejects with the same diagnosis are counted, not judged. The real SQLite engine prepares both texts; identical EXPLAIN "
             "bytecode means equivalent on all data, otherwise both run on 6 (quick) / 12 (thorough) seeded databases with NULLs (rows in order when ordered, final "
             "table contents for DML). J_C03 (TLC) checks that the executed reference is RefFull of the logged calls and turns the engine records into verdicts.",
        ref="6/C03", technique="TLA+ reference transcription (PT_RefSql) of TLC-grown programs; SQLite engine as oracle (prepare, EXPLAIN identity, execution); TLC trace judge (J_C03)",
        note=TLC_NOTE + " Equivalence beyond identical bytecode is tested on generated databases only; SQLite 3.40 is trusted as the meaning of SQLite-dialect SQL."),
    "C04": dict(
        text="PT_Param specifies the dialect placeholder text, the literal spans that decode to a value, and ParamEquiv as a parallel walk of the inline and the "
             "parameterised token streams (identical at every non-placeholder position; the k-th placeholder has the dialect's text and stands where the inline "
             "stream has one literal decoding to values[k]; all values consumed, in order, plain data) plus Residue (no parameterised value's text left) and ExemptLost (a constant exempt by allow_parametrize=False is a literal of both renderings). TLC grows "
             "value-bearing programs: 5 statement kinds, ~25 value-bearing clause calls (constants, arithmetic, CASE, function args, arrays, GROUP BY expressions, "
             "HAVING, JOIN ON, ORDER BY, WHERE =/IN/BETWEEN/bool, LIMIT/OFFSET, INSERT rows, upsert updates, SET) and 20 further value-bearing term classes built by name "
             "(aggregate / analytic FILTER, window partition / order, bitwise, LIKE, JSON operators, tuples, nested CASE, NOT, subquery operands ...) with pairwise distinct fresh values (integers, strings, floats in plain and exponent notation compared by value, booleans, arrays) in up to 2 "
             "(quick) / 3 (thorough) clauses; each is placed at 6 nesting positions (top, subquery in FROM / IN / select item, set operation, CTE) and rendered both "
             "ways under the 6 dialect classes (get_sql with a parameterizer, get_parameterized_sql() without a context and with the caller's own parameterizer in the context must agree); J_C04 (TLC) walks the two real token streams; SQLite executes both forms on a small database.",
        ref="6/C04", technique="TLA+ parallel-walk relation between two real renderings (PT_Param); TLC-grown value-bearing programs; TLC judge (J_C04); sqlite3 execution of both forms"),
    "C05": dict(
        text="TLC proves on the specification that the intended string/identifier encoders round-trip through the reference lexer of every "
             "dialect, stand-alone and embedded, for all strings over a 20-class adversarial alphabet up to length 2 (quick) / 3 (thorough). "
             "Then every string over the alphabet (plus hot triples, seeded Unicode strings and 20 non-string values) is inlined at 35 value "
             "positions (incl. the JSON operators, whose document operand has its own serialiser, and the file name of MySQL LOAD DATA, MySQL only) x 6 dialects through the real builders, and one value-bearing term "
             "is rendered under two dialects in a row (12 positions x 5 dialect pairs); TLC itself lexes the emitted characters (PT_Lex!Lex) and requires the benign "
             "rendering's token list with the marker replaced by exactly one literal decoding to the value. Exhaustive over alphabet x "
             "position x dialect within the length bound.",
        ref="6/C05", technique="TLA+ reference lexer + encoder round-trip model-checked (PT_Lex, MC_Lex); TLC lexes real statement text (J_Lit)"),
    "C07": dict(
        text="TLC proves on the specification that the intended identifier encoder (quote, double embedded quotes) round-trips through the "
             "reference lexer of every dialect, stand-alone and embedded in a qualified reference. Then ~250 names (all strings of length <=2 "
             "over a 13-class alphabet incl. both quote characters, dots, spaces, brackets; keywords; mixed case; seeded Unicode) are placed at "
             "~75 emission sites (incl. tables made by the query class's factories and statements started from the table shortcuts, aliases of UPDATE / DELETE targets, which must also be DEFINED next to their table when they qualify a column, and CREATE TABLE AS SELECT) x 6 dialects through the real builders, and the same name-bearing objects (tables with their schemas, fields) are rendered under two "
             "dialects with different quote characters in a row; SQLite prepares the SQLite-dialect statements against a schema whose objects carry the name; TLC lexes the emitted characters and requires every occurrence of the "
             "benign marker identifier to have become one identifier token in the dialect's quote character decoding to the name, nothing else "
             "changed. Exhaustive over alphabet x site x dialect within the bound.",
        ref="6/C07", technique="TLA+ reference lexer + identifier encoder round-trip (PT_Lex, MC_Lex); TLC lexes real statement text (J_Lit)"),
    "C16": dict(
        text="The intended replace_table is the recursive operator PT_Terms!Replace; TLC proves ReplaceComplete (no reference to old remains, "
             "every other reference unchanged, idempotent) on every generated expression tree and every pair of sources. Conformance: ~55 term "
             "templates (every Term subclass with a table slot, at each operand position, table-qualified stars as function arguments) and 30 statement clause-slot templates (FROM, JOIN item/ON/USING, "
             "SELECT, WHERE, GROUP BY, HAVING, ORDER BY, SET, RETURNING, DISTINCT ON, ON CONFLICT, CTE, nested subqueries, set operations, single-source statements "
             "with a foreign WHERE) x 5 (old,new) pairs (plain, aliased, schema, new = another source of the statement) x dialect builders are built on the real library three ways - replaced (looked at twice: field / table walk, second rendering), rebuilt with the new table from "
             "the start, and the receiver before/after - and TLC (J_Replace) compares the token streams.",
        ref="6/C16", technique="TLA+ Replace operator with ReplaceComplete model-checked (PT_Terms); TLC judge of replaced vs rebuilt renderings (J_Replace)"),
    "C17": dict(
        text="TLC generates the full cross product of table constructions (name x 5 schema forms x alias x 3 temporal clauses x 2 query classes = 120), "
             "and ~560 expression trees (incl. tuples / arrays / IN lists with a leading constant, the library's own aggregate / analytic / cast / multi-argument function classes) over fields of three tables, two aliases of one table and one table name in two schemas, with overlapping column names in every operand order, computing FieldsOf/TablesOf "
             "on each tree. The executor records ==, !=, hash and set/dict/list membership matrices for the table universes (and for schemas, "
             "aliased queries, query builders and a universe of objects of different kinds sharing one name) before and after rendering them AND the statements that contain them, the library's own join-membership decision for every pair of tables (automatic alias exactly when j == i: PT_Eq!JoinMember), and fields_()/tables_ of each built "
             "expression - also after every node was hashed, the expression re-targeted with replace_table and combined with the original. TLC evaluates the "
             "laws over all pairs and triples (reflexive, symmetric, transitive, == => equal hash, != = not ==, membership = linear search, "
             "stable under rendering) and compares the collections with the oracle. Exhaustive over the variant product.",
        ref="6/C17", technique="TLA+ laws and FieldsOf oracle (PT_Eq); TLC generates variants/trees (MC_Eq) and judges recorded matrices (J_Eq)"),
    "C18": dict(
        text="TLC proves on the specification that the intended encoder round-trips through the field-layout decoder for every 7-tuple "
             "over the digit-pattern set (either sign of the leading component, quarters, weeks, both templates); the same tuples plus "
             "seeded multi-digit ones go through the real Interval.get_sql under six contexts - and, as operands, through 8 statement positions of the six dialect classes - and TLC decodes "
             "the emitted characters with the same decoder and compares with the constructor arguments. Exhaustive over the digit-pattern product, which is "
             "the input dimension the trimming regex is sensitive to.",
        ref="6/C18", technique="TLA+ encoder/decoder pair (PT_Interval) model-checked for round trip; TLC decodes real literals (J_C18)"),
}


def main():
    props = [json.loads(l) for l in open(os.path.join(ROOT, "properties.jsonl"))]
    checks = []
    na = []
    for p in props:
        pid = p["id"]
        c = CHECKS.get(pid)
        if not c:
            na.append({"property_id": pid, "reason": c_reason(pid)})
            continue
        checks.append({
            "property_id": pid,
            "quick_cmd": f"./check {pid} --tier quick",
            "thorough_cmd": f"./check {pid} --tier thorough",
            "evidence_file": f"/verif/evidence/{pid}.json",
            "replay_cmd_template": f"./check {pid} --replay {{path}}",
            "engine": "tlc",
            "level_claimed": {"category": c.get("category", "model_checking"), "text": c["text"], "design_ref": "DESIGN.md section " + c["ref"]},
            "level_note": c.get("note", TLC_NOTE),
            "technique": c["technique"],
        })
    m = {
        "version": 1,
        "setup_cmd": "./check setup",
        "hooks": {"guard": "PYPIKA_TORTOISE_VERIF",
                  "enable": "none needed: observations are taken through the public API from /verif (no in-source hooks)",
                  "baseline_off_cmd": "cd /repo && /venv/bin/python -m pytest -ra -q -p no:cacheprovider --timeout=900 --continue-on-collection-errors",
                  "source_commits": [], "add_only": True},
        "engines": [{"name": "tlc", "path": "/opt/veriftools/tla/tla2tools.jar", "serves_properties": sorted(CHECKS),
                     "kind_free_text": "TLC 1.8 explicit-state model checker: generator of behaviours/inputs from the TLA+ specification and judge of traces recorded from the implementation"}],
        "checks": checks,
        "not_applicable": na,
        "notes": "One entry point: ./check <Cxx> [--tier quick|thorough] [--replay path]; ./check setup; ./check selftest (every judge must reject damaged traces); "
                 "./check X01 (behaviour outside the property list, evidence_extra/). tools/reseed_all.sh re-tries the archived seeded changes. See DESIGN.md.",
    }
    json.dump(m, open(os.path.join(ROOT, "MANIFEST.json"), "w"), indent=1)
    print("checks:", len(checks), "not_applicable:", len(na))


def c_reason(pid):
    return "check not built yet (work in progress; planned per DESIGN.md section 6)"


if __name__ == "__main__":
    main()
