-------------------------------- MODULE J_Head --------------------------------
(* Judge for C09, head of a SELECT: the words between SELECT and the first  *)
(* select item (DISTINCT, and SQL Server's TOP (n)) vs PT_Builder!SelHead.  *)
EXTENDS PT_Builder, Json, IOUtils
Events == ndJsonDeserialize(IOEnv.TRACE_FILE)
VARIABLE i
Init == i = 1
Next == /\ i <= Len(Events)
        /\ LET e == Events[i]  want == SelHead(Fold(Empty, e.hist), e.d) IN
           IF e.exc = "" /\ want = e.head THEN TRUE ELSE PrintT("V " \o ToJson([tid |-> e.tid, want |-> want]))
        /\ i' = i + 1
Spec == Init /\ [][Next]_i
=============================================================================
