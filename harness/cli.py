"""./check <Cxx> [--tier quick|thorough] [--replay path] | setup | selftest"""
from __future__ import annotations

import argparse
import importlib
import os
import sys
import traceback


def main(argv=None) -> int:
    ap = argparse.ArgumentParser()
    ap.add_argument("what")
    ap.add_argument("--tier", default=os.environ.get("VERIF_TIER") or "quick", choices=["quick", "thorough"])
    ap.add_argument("--replay", default=None)
    a = ap.parse_args(argv)
    if a.what == "setup":
        from harness import setup

        return setup.main()
    if a.what == "selftest":
        from harness import selftest

        return selftest.main()
    prop = a.what.upper()
    try:
        mod = importlib.import_module("harness." + prop.lower())
    except ModuleNotFoundError:
        print(f"no check for {prop}", file=sys.stderr)
        return 2
    try:
        if a.replay:
            return mod.replay(a.replay)
        return mod.run(a.tier)
    except Exception:  # machinery failure
        traceback.print_exc()
        print(f"MACHINERY-FAILURE property={prop}", file=sys.stderr)
        return 2


if __name__ == "__main__":
    sys.exit(main())
