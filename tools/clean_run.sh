#!/bin/bash
# tools/clean_run.sh <Cxx> [tier] - run one check against a scratch worktree of /repo's HEAD (for use while /repo itself carries a seeded change)
cd "$(dirname "$0")/.."
WT=$(mktemp -d /tmp/clean-XXXXXX)
git -C /repo worktree add -q --detach "$WT/r" HEAD || exit 2
VERIF_REPO="$WT/r" VERIF_SCRATCH="$WT" VERIF_EVIDENCE_DIR="$WT/evidence" VERIF_REPLAY_DIR="$WT/replays" ./check "$1" --tier "${2:-quick}" 2>&1 | grep -v '^KNOWN' | tail -${TAIL:-4} | cut -c1-${CUT:-500}
git -C /repo worktree remove --force "$WT/r"; rm -rf "$WT"
