------------------------------- MODULE PT_Eq -------------------------------
(***************************************************************************)
(* Property C17: coherence of equality and hashing, and completeness of     *)
(* field / table collection.                                                *)
(*                                                                          *)
(*  Variants     : the cross product of table constructions (name, schema   *)
(*                 form, alias, temporal clause, query class) - generated   *)
(*                 by TLC and built by the executor                         *)
(*  Laws         : reflexive, symmetric, transitive, == => equal hash,      *)
(*                 != is not ==, set/dict membership = linear search,       *)
(*                 stable under rendering                                   *)
(*  FieldsOf /   : every distinct (source, column) / source occurring in an  *)
(*  TablesOf       expression tree (PT_Expr tree shape with src on fields)  *)
(***************************************************************************)
EXTENDS Naturals, Sequences, FiniteSets, TLC

\* ---- laws over a recorded universe u:
\*   u.eq, u.ne : Seq(Seq(BOOLEAN))   u.h : Seq(STRING) ("unhashable" or the hash)
\*   u.inset, u.indict, u.inlist : Seq(Seq(STRING)) "t" / "f" / "unhashable"  ([i][j]: j found in container {i})
\*   u.eq2, u.h2 : the same after every object has been rendered
N(u) == Len(u.eq)
Refl(u) == {<<"reflexive", i, i>> : i \in {x \in 1..N(u) : ~u.eq[x][x]}}
Symm(u) == {<<"symmetric", p[1], p[2]>> : p \in {q \in (1..N(u)) \X (1..N(u)) : q[1] < q[2] /\ u.eq[q[1]][q[2]] # u.eq[q[2]][q[1]]}}
Trans(u) == {<<"transitive", t[1], t[3]>> : t \in {q \in (1..N(u)) \X (1..N(u)) \X (1..N(u)) :
                                                   u.eq[q[1]][q[2]] /\ u.eq[q[2]][q[3]] /\ ~u.eq[q[1]][q[3]]}}
HashCo(u) == {<<"eq-but-hash-differs", p[1], p[2]>> : p \in {q \in (1..N(u)) \X (1..N(u)) :
                                                   q[1] < q[2] /\ u.eq[q[1]][q[2]] /\ u.h[q[1]] # u.h[q[2]]}}
Unhash(u) == {<<"unhashable", i, i>> : i \in {x \in 1..N(u) : u.h[x] = "unhashable"}}
NeNot(u) == {<<"ne-is-not-not-eq", p[1], p[2]>> : p \in {q \in (1..N(u)) \X (1..N(u)) : u.ne[q[1]][q[2]] = u.eq[q[1]][q[2]]}}
Member(u, m, name) == {<<name, p[1], p[2]>> : p \in {q \in (1..N(u)) \X (1..N(u)) :
                                                   m[q[1]][q[2]] # "unhashable" /\ (m[q[1]][q[2]] = "t") # u.eq[q[1]][q[2]]}}
Stable(u) == {<<"changed-by-rendering", i, i>> : i \in {x \in 1..N(u) : u.eq2[x] # u.eq[x] \/ u.h2[x] # u.h[x]}}

\* the library's own use of membership: joining an un-aliased table gives it an automatic alias exactly when it == a source of the statement
\* (u.joinalias[i][j]: table j joined onto FROM table i; "n/a" where the decision is not taken)
JoinMember(u) == {<<"join-membership", p[1], p[2]>> : p \in {q \in (1..N(u)) \X (1..N(u)) :
                                                   u.joinalias[q[1]][q[2]] \in {"t", "f"} /\ (u.joinalias[q[1]][q[2]] = "t") # u.eq[q[2]][q[1]]}}
Broken(u) == Refl(u) \cup Symm(u) \cup Trans(u) \cup HashCo(u) \cup NeNot(u) \cup JoinMember(u)
             \cup Member(u, u.inset, "set-membership") \cup Member(u, u.indict, "dict-membership")
             \cup Member(u, u.inlist, "list-membership") \cup Stable(u)

\* ---- field / table collection over expression trees (fields carry src)
RECURSIVE FieldsOf(_), FieldsOfSeq(_)
FieldsOfSeq(s) == UNION {FieldsOf(s[i]) : i \in DOMAIN s}
FieldsOf(t) ==
    CASE t.k = "fld" -> {<<t.src, t.n>>}
      [] t.k = "bin" -> FieldsOf(t.l) \cup FieldsOf(t.r)
      [] t.k \in {"neg", "not", "isnull"} -> FieldsOf(t.a)
      [] t.k = "in" -> FieldsOf(t.a) \cup FieldsOfSeq(t.items)
      [] t.k = "between" -> FieldsOf(t.a) \cup FieldsOf(t.lo) \cup FieldsOf(t.hi)
      [] t.k = "call" -> FieldsOfSeq(t.args)
      [] t.k = "case" -> FieldsOf(t.w) \cup FieldsOf(t.t) \cup FieldsOf(t.e)
      [] OTHER -> {}
TablesOf(t) == {f[1] : f \in FieldsOf(t)} \ {""}
=============================================================================
