------------------------------- MODULE MC_C12 -------------------------------
(* Generator for C12: every term class (PT_Expr kinds and the opaque "ext"  *)
(* classes the executor builds by class name) carrying a unique alias,      *)
(* placed at every position: defining positions, every operand slot, and    *)
(* GROUP BY / ORDER BY by alias or by expression.                           *)
EXTENDS PT_Builder, Json
CONSTANT ExtClasses

Fld(s, c) == [k |-> "fld", src |-> s, n |-> c]
Num(n) == [k |-> "num", n |-> n]
Cmp(l, r) == [k |-> "bin", op |-> "=", l |-> l, r |-> r]
WithAl(t, a) == [x \in DOMAIN t \cup {"al"} |-> IF x = "al" THEN a ELSE t[x]]

BaseTerms == { Fld("T1", "b"), Num("7"), [k |-> "str", n |-> "s"],
               [k |-> "bin", op |-> "+", l |-> Fld("T1", "b"), r |-> Num("1")],
               Cmp(Fld("T1", "b"), Num("1")),
               [k |-> "bin", op |-> "AND", l |-> Cmp(Fld("T1", "b"), Num("1")), r |-> Cmp(Fld("T1", "c"), Num("2"))],
               [k |-> "neg", a |-> Fld("T1", "b")], [k |-> "not", a |-> Cmp(Fld("T1", "b"), Num("1"))],
               [k |-> "isnull", a |-> Fld("T1", "b")], [k |-> "in", a |-> Fld("T1", "b"), items |-> <<Num("1"), Num("2")>>],
               [k |-> "between", a |-> Fld("T1", "b"), lo |-> Num("1"), hi |-> Num("5")],
               [k |-> "call", f |-> "UPPER", args |-> <<Fld("T1", "b")>>], [k |-> "call", f |-> "SUM", args |-> <<Fld("T1", "b")>>],
               [k |-> "call", f |-> "COALESCE", args |-> <<Fld("T1", "b")>>],      \* (a function of ONE argument that usually has more)
               [k |-> "case", w |-> Cmp(Fld("T1", "b"), Num("1")), t |-> Num("2"), e |-> Num("3")] }
Terms == {WithAl(t, "ala") : t \in BaseTerms} \cup {[k |-> "ext", cls |-> c, al |-> "ala"] : c \in ExtClasses}

Positions == {"select-item", "select-two", "operand-arith", "operand-func", "operand-case-then", "operand-case-when", "operand-cmp-in-select",
              "where", "having", "groupby", "orderby", "join-on", "insert-value", "set-value",
              "groupby-ref", "orderby-ref", "groupby-other-alias", "subquery-select",
              "operand-cmp-right-in-select", "operand-arith-right", "where-right", "having-right", "operand-func-second",
              \* the reference is made BEFORE the select list defines the alias, the select list is replaced by * afterwards, or the alias arrives late
              "orderby-then-select", "groupby-then-select", "star-after-alias", "late-alias",
              \* argument of an aggregate with the DISTINCT option, of an aggregate with a FILTER, of a window function
              "operand-count-distinct", "operand-sum-distinct", "operand-window",
              \* every argument slot of functions with their own rendering: CONCAT (3 args), SUBSTRING, CAST, MIN / AVG / LOWER / LENGTH
              "operand-concat-first", "operand-concat-last", "operand-substring", "operand-cast", "operand-min", "operand-avg", "operand-lower", "operand-length",
              "operand-window-partition", "operand-window-order", "operand-in-item", "operand-between-bound", "operand-isnull", "operand-neg", "operand-not",
              \* the aliased term IS the whole condition of WHERE / HAVING / JOIN ON (not an operand of one)
              "where-whole", "having-whole", "join-on-whole",
              \* GROUP BY / ORDER BY over an un-aliased COLUMN whose name is the alias of another select item (a column, not a reference)
              "groupby-column-named-as-alias", "orderby-column-named-as-alias"}

Sel(ts) == [m |-> "select", terms |-> ts]
Outer(t) == WithAl(t, "alx")
Program(t, p) ==
    LET from == [m |-> "from_", src |-> "T1"]
        plain == Sel(<<Fld("T1", "a")>>) IN
    CASE p = "select-item" -> <<from, Sel(<<t>>)>>
      [] p = "select-two" -> <<from, Sel(<<WithAl(Fld("T1", "a"), "aly"), t>>)>>
      [] p = "operand-arith" -> <<from, Sel(<<Outer([k |-> "bin", op |-> "+", l |-> t, r |-> Num("1")])>>)>>
      [] p = "operand-func" -> <<from, Sel(<<Outer([k |-> "call", f |-> "UPPER", args |-> <<t>>])>>)>>
      [] p = "operand-case-then" -> <<from, Sel(<<Outer([k |-> "case", w |-> Cmp(Fld("T1", "c"), Num("1")), t |-> t, e |-> Num("0")])>>)>>
      [] p = "operand-case-when" -> <<from, Sel(<<Outer([k |-> "case", w |-> Cmp(t, Num("1")), t |-> Num("2"), e |-> Num("0")])>>)>>
      [] p = "operand-cmp-in-select" -> <<from, Sel(<<Outer(Cmp(t, Num("1")))>>)>>
      [] p = "operand-cmp-right-in-select" -> <<from, Sel(<<Outer(Cmp(Fld("T1", "c"), t))>>)>>
      [] p = "operand-arith-right" -> <<from, Sel(<<Outer([k |-> "bin", op |-> "-", l |-> Fld("T1", "c"), r |-> t])>>)>>
      [] p = "where-right" -> <<from, plain, [m |-> "where", crit |-> Cmp(Fld("T1", "c"), t)]>>
      [] p = "having-right" -> <<from, plain, [m |-> "having", crit |-> Cmp(Fld("T1", "c"), t)]>>
      [] p = "operand-func-second" -> <<from, Sel(<<Outer([k |-> "call", f |-> "COALESCE", args |-> <<Fld("T1", "c"), t>>])>>)>>
      [] p = "groupby-column-named-as-alias" -> <<from, [m |-> "join", item |-> "T2", how |-> "", kind |-> "on", crit |-> Cmp(Fld("T1", "a"), Fld("T2", "a")), cols |-> <<>>],
                                                  Sel(<<t>>), [m |-> "groupby", terms |-> <<Fld("T1", "ala")>>]>>
      [] p = "orderby-column-named-as-alias" -> <<from, [m |-> "join", item |-> "T2", how |-> "", kind |-> "on", crit |-> Cmp(Fld("T1", "a"), Fld("T2", "a")), cols |-> <<>>],
                                                  Sel(<<t>>), [m |-> "orderby", terms |-> <<Fld("T1", "ala")>>, dir |-> ""]>>
      [] p = "where-whole" -> <<from, plain, [m |-> "where", crit |-> t]>>
      [] p = "having-whole" -> <<from, plain, [m |-> "having", crit |-> t]>>
      [] p = "join-on-whole" -> <<from, [m |-> "join", item |-> "T2", how |-> "", kind |-> "on", crit |-> t, cols |-> <<>>], plain>>
      [] p = "where" -> <<from, plain, [m |-> "where", crit |-> Cmp(t, Num("1"))]>>
      [] p = "having" -> <<from, plain, [m |-> "having", crit |-> Cmp(t, Num("1"))]>>
      [] p = "groupby" -> <<from, plain, [m |-> "groupby", terms |-> <<t>>]>>
      [] p = "orderby" -> <<from, plain, [m |-> "orderby", terms |-> <<t>>, dir |-> ""]>>
      [] p = "join-on" -> <<from, [m |-> "join", item |-> "T2", how |-> "", kind |-> "on", crit |-> Cmp(t, Fld("T2", "a")), cols |-> <<>>], plain>>
      [] p = "insert-value" -> << [m |-> "into", src |-> "T1"], [m |-> "insert", row |-> <<Num("1"), t>>] >>
      [] p = "set-value" -> << [m |-> "update", src |-> "T1"], [m |-> "set", col |-> "a", val |-> t] >>
      [] p = "groupby-ref" -> <<from, Sel(<<t>>), [m |-> "groupby", terms |-> <<t>>]>>
      [] p = "orderby-ref" -> <<from, Sel(<<t>>), [m |-> "orderby", terms |-> <<t>>, dir |-> ""]>>
      [] p = "operand-count-distinct" -> <<from, Sel(<<Outer([k |-> "call", f |-> "COUNT", args |-> <<t>>, dist |-> TRUE])>>)>>
      [] p = "operand-sum-distinct" -> <<from, Sel(<<Outer([k |-> "call", f |-> "SUM", args |-> <<t>>, dist |-> TRUE])>>)>>
      [] p = "operand-concat-first" -> <<from, Sel(<<Outer([k |-> "call", f |-> "CONCAT", args |-> <<t, [k |-> "str", n |-> "-"], Fld("T1", "c")>>])>>)>>
      [] p = "operand-concat-last" -> <<from, Sel(<<Outer([k |-> "call", f |-> "CONCAT", args |-> <<Fld("T1", "c"), [k |-> "str", n |-> "-"], t>>])>>)>>
      [] p = "operand-substring" -> <<from, Sel(<<Outer([k |-> "call", f |-> "SUBSTRING", args |-> <<t, Num("1"), Num("2")>>])>>)>>
      [] p = "operand-cast" -> <<from, Sel(<<Outer([k |-> "call", f |-> "CAST_INT", args |-> <<t>>])>>)>>
      [] p = "operand-min" -> <<from, Sel(<<Outer([k |-> "call", f |-> "MIN", args |-> <<t>>])>>)>>
      [] p = "operand-avg" -> <<from, Sel(<<Outer([k |-> "call", f |-> "AVG", args |-> <<t>>])>>)>>
      [] p = "operand-lower" -> <<from, Sel(<<Outer([k |-> "call", f |-> "LOWER", args |-> <<t>>])>>)>>
      [] p = "operand-length" -> <<from, Sel(<<Outer([k |-> "call", f |-> "LENGTH", args |-> <<t>>])>>)>>
      [] p = "operand-window-partition" -> <<from, Sel(<<Outer([k |-> "win", f |-> "SUM", args |-> <<Fld("T1", "c")>>, part |-> <<t>>, ord |-> <<>>])>>)>>
      [] p = "operand-window-order" -> <<from, Sel(<<Outer([k |-> "win", f |-> "SUM", args |-> <<Fld("T1", "c")>>, part |-> <<>>, ord |-> <<t>>])>>)>>
      [] p = "operand-in-item" -> <<from, Sel(<<Outer([k |-> "in", a |-> Fld("T1", "c"), items |-> <<Num("1"), t>>])>>)>>
      [] p = "operand-between-bound" -> <<from, Sel(<<Outer([k |-> "between", a |-> Fld("T1", "c"), lo |-> Num("1"), hi |-> t])>>)>>
      [] p = "operand-isnull" -> <<from, Sel(<<Outer([k |-> "isnull", a |-> t])>>)>>
      [] p = "operand-neg" -> <<from, Sel(<<Outer([k |-> "neg", a |-> t])>>)>>
      [] p = "operand-not" -> <<from, Sel(<<Outer([k |-> "not", a |-> t])>>)>>
      [] p = "operand-window" -> <<from, Sel(<<Outer([k |-> "win", f |-> "SUM", args |-> <<t>>, part |-> <<Fld("T1", "c")>>, ord |-> <<>>])>>)>>
      [] p = "orderby-then-select" -> <<from, [m |-> "orderby", terms |-> <<t>>, dir |-> ""], Sel(<<t>>)>>
      [] p = "groupby-then-select" -> <<from, [m |-> "groupby", terms |-> <<t>>], Sel(<<t>>)>>
      [] p = "star-after-alias" -> <<from, Sel(<<t>>), [m |-> "groupby", terms |-> <<t>>], [m |-> "orderby", terms |-> <<t>>, dir |-> ""], [m |-> "selectstr", name |-> "*"]>>
      [] p = "late-alias" -> <<from, plain, [m |-> "orderby", terms |-> <<Fld("T1", "a")>>, dir |-> ""], [m |-> "groupby", terms |-> <<Fld("T1", "a")>>],
                               Sel(<<t>>), [m |-> "groupby", terms |-> <<t>>], [m |-> "orderby", terms |-> <<t>>, dir |-> ""]>>
      [] p = "groupby-other-alias" -> <<from, Sel(<<WithAl(Fld("T1", "a"), "aly")>>), [m |-> "groupby", terms |-> <<t>>], [m |-> "orderby", terms |-> <<t>>, dir |-> ""]>>
      [] OTHER -> <<from, Sel(<<t>>)>>

VARIABLES term, pos
Init == term \in Terms /\ pos \in Positions
Next == UNCHANGED <<term, pos>>
Emit == PrintT("H " \o ToJson([hist |-> Program(term, pos), pos |-> pos, cls |-> IF term.k = "ext" THEN term.cls ELSE term.k \o (IF term.k = "bin" THEN term.op ELSE IF term.k = "call" THEN term.f ELSE "")]))
\* AliasOnce on the reference projection: in the expected sequence an alias is defined at most once, and every GROUP BY / ORDER BY
\* reference names an alias the select list defines
RefAliasOnce == LET s == AliasSeq(Fold(Empty, Program(term, pos)), "generic") IN
                   /\ \A i, j \in DOMAIN s : (i # j /\ s[i][1] = "SELECT" /\ s[j][1] = "SELECT") => s[i][2] # s[j][2]
                   /\ \A i \in DOMAIN s : s[i][1] # "SELECT" => \E j \in DOMAIN s : s[j][1] = "SELECT" /\ s[j][2] = s[i][2]
=============================================================================
