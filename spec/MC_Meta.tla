------------------------------ MODULE MC_Meta ------------------------------
(* Generator / design check for PT_Meta: trees of depth <= 2 over a leaf    *)
(* set with every vote, and all EmptyCriterion folds of length <= 4.        *)
EXTENDS PT_Meta, Json
Fld(n) == [k |-> "fld", src |-> "T1", n |-> n]
Num(n) == [k |-> "num", n |-> n]
Leaves == { Fld("a"), Num("1"), [k |-> "call", f |-> "SUM", args |-> <<Fld("b")>>], [k |-> "call", f |-> "UPPER", args |-> <<Fld("c")>>],
            [k |-> "call", f |-> "UPPER", args |-> <<Num("2")>>], [k |-> "win", f |-> "SUM", args |-> <<Fld("b")>>, part |-> <<Fld("c")>>, ord |-> <<>>] }
Bin(op, l, r) == [k |-> "bin", op |-> op, l |-> l, r |-> r]
Level1 == Leaves
       \cup {Bin(op, l, r) : op \in {"+", "="}, l \in Leaves, r \in Leaves}
       \cup {Bin("AND", Bin("=", l, Num("1")), Bin("=", r, Num("2"))) : l \in Leaves, r \in Leaves}
       \cup {[k |-> u, a |-> x] : u \in {"neg", "not", "isnull"}, x \in Leaves}
       \cup {[k |-> "in", a |-> x, items |-> <<Num("1"), Num("2")>>] : x \in Leaves}
       \cup {[k |-> "between", a |-> x, lo |-> Num("1"), hi |-> y] : x \in Leaves, y \in {Num("5"), [k |-> "call", f |-> "SUM", args |-> <<Fld("b")>>]}}
       \cup {[k |-> "call", f |-> "COALESCE", args |-> <<x, y>>] : x \in Leaves, y \in Leaves}
       \cup {[k |-> "case", w |-> Bin("=", x, Num("1")), t |-> y, e |-> z] : x \in {Fld("a"), [k |-> "call", f |-> "SUM", args |-> <<Fld("b")>>]},
                                                                           y \in Leaves, z \in {Num("0"), Fld("a"), [k |-> "call", f |-> "SUM", args |-> <<Fld("b")>>]}}
VARIABLES tree, mode, parts
vars == <<tree, mode, parts>>
Parts == UNION {[1..n -> {"E", "c1", "c2", "c3"}] : n \in 0..4}
Init == \/ mode = "agg1" /\ tree \in Level1 /\ parts = <<>>
        \/ mode = "fold" /\ tree = Num("0") /\ parts \in Parts
\* second level: one more operator over a level-1 tree (grown by transition, never as a set of all pairs)
Next == /\ mode = "agg1"
        /\ mode' = "agg2" /\ parts' = parts
        /\ \E y \in Leaves : tree' \in {Bin("+", tree, y), Bin("AND", Bin("=", y, Num("1")), Bin("=", tree, Num("2"))), [k |-> "not", a |-> tree], [k |-> "neg", a |-> tree],
                                        [k |-> "call", f |-> "UPPER", args |-> <<tree>>], [k |-> "call", f |-> "MAX", args |-> <<tree>>],
                                        [k |-> "case", w |-> Bin("=", y, Num("1")), t |-> tree, e |-> Num("0")]}
Emit == IF mode = "fold" THEN PrintT("F " \o ToJson([parts |-> parts]))
        ELSE PrintT("T " \o ToJson([tree |-> tree]))
Laws == ResolveLaws
Sound == mode = "fold" \/ (AggSound(tree) /\ AggAgree(tree))
Identity == mode # "fold" \/ LeftIdentityOnly(parts)
Bounds == {<<"C">>} \cup {<<s, n>> : s \in {"P", "F"}, n \in {-1, 0, 1, 7}}
FramesAll == {[unit |-> u, lo |-> lo, hi |-> hi] : u \in {"ROWS", "RANGE"}, lo \in Bounds, hi \in Bounds \cup {<<>>}}
\* every window shape x every frame (and none, and a second one): the frame is carried in the grammar, never without OVER; every frame
\* standard SQL accepts is accepted (the converse is the named deviation DevFrameOrderUnchecked)
Frames == \A o \in BOOLEAN, r \in BOOLEAN :
             /\ FrameCarried(o, r, <<>>) /\ NoBareFrame(o, r, <<>>)
             /\ \A f \in FramesAll : /\ FrameCarried(o, r, <<f>>) /\ NoBareFrame(o, r, <<f>>) /\ IsFrameToks(FrameToks(f))
                                     /\ (FrameLegal(f) => WindowCall(o, r, <<f>>).st = "ok")
                                     /\ WindowCall(o, r, <<f, f>>).st # "ok"
PathNames == {<<"t">>, <<"s", "t">>, <<"d", "s", "t">>, <<"d.x", "s", "t">>, <<"s", "s">>}
Paths == \A r \in {"kw_obj", "kw_str", "kw_list", "kw_tuple", "attr", "make", "make_al"}, ns \in PathNames, al \in {"", "al"} : PathOK(r, ns, al)
LoadCalls == {[m |-> "load", v |-> "f1"], [m |-> "load", v |-> "f2"], [m |-> "load", v |-> ""], [m |-> "into", v |-> "t1"], [m |-> "into", v |-> "t2"]}
LoadHists == UNION {[1..n -> LoadCalls] : n \in 0..4}
\* every history of <= 4 calls is sane, and calls on different slots commute
Loads == /\ \A h \in LoadHists : LoadSane(h)
         /\ \A h \in LoadHists : \A i \in 1..(Len(h) - 1) : h[i].m # h[i + 1].m =>
                LoadOutcome(h) = LoadOutcome([k \in DOMAIN h |-> IF k = i THEN h[i + 1] ELSE IF k = i + 1 THEN h[i] ELSE h[k]])
Arity == \A d \in {"none", "0", "1", "2", "3"}, g \in {"0", "1", "2", "3", "4"} : ArityExact(d, g)
=============================================================================
