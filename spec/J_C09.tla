-------------------------------- MODULE J_C09 --------------------------------
(* Judge for C09: folds the logged setter calls through PT_Builder and      *)
(* compares the row-limiting tail of the REAL token stream (payloads, with  *)
(* placeholders as "PH") and the parameter list with PagTail / PagParams.   *)
EXTENDS PT_Builder, Json, IOUtils
G_SrcTab(s) == [name |-> "t1", alias |-> "", kind |-> "table"]
Events == ndJsonDeserialize(IOEnv.TRACE_FILE)
VARIABLE i
Init == i = 1
Base(o) == IF o THEN [Empty EXCEPT !.from = <<"T1">>, !.sel = << [k |-> "fld", src |-> "T1", n |-> "a"] >>,
                                   !.ord = << [t |-> [k |-> "fld", src |-> "T1", n |-> "a"], dir |-> ""] >>]
           ELSE [Empty EXCEPT !.from = <<"T1">>, !.sel = << [k |-> "fld", src |-> "T1", n |-> "a"] >>]
Verdict(e) ==
    LET st == Fold(Base(e.ordered), e.hist)
        \* a set operation paginates in its own dialect grammar too
        want == PagTail(st, e.d, e.ph)
        wantp == PagParams(st, e.d)
        shape == <<(IF st.lim < 0 THEN "nolimit" ELSE IF st.lim = 0 THEN "limit0" ELSE "limit"),
                   (IF st.off < 0 THEN "nooffset" ELSE IF st.off = 0 THEN "offset0" ELSE "offset"),
                   (IF st.top >= 0 THEN "top" ELSE "notop")>>
        \* 'skip m rows, then return at most n' on the ten-row table 0..9 (SQLite executes the ordered top-level statement)
        m == IF st.off < 0 THEN 0 ELSE st.off
        cnt == IF st.lim < 0 THEN 10 - m ELSE IF st.lim < 10 - m THEN st.lim ELSE 10 - m
        wantRows == [k \in 1..(IF cnt < 0 THEN 0 ELSE cnt) |-> m + k - 1]
    IN [tid |-> e.tid, shape |-> shape,
        bad |-> (IF e.tail # want THEN {"tail"} ELSE {})
                \cup (IF e.ph /\ e.params # wantp THEN {"params"} ELSE {})
                \cup (IF ~PagGrammatical(st, e.d) THEN {"offset-without-limit"} ELSE {})
                \cup (IF e.engine /\ e.rows # wantRows THEN {"engine-rows"} ELSE {})
                \cup (IF st.top >= 0 /\ (st.lim >= 0 \/ st.off >= 0) THEN {"top-with-offset-fetch"} ELSE {}),
        want |-> want]
Next == /\ i <= Len(Events)
        /\ LET v == Verdict(Events[i]) IN IF v.bad = {} THEN TRUE ELSE PrintT("V " \o ToJson(v))
        /\ i' = i + 1
Spec == Init /\ [][Next]_i
=============================================================================
