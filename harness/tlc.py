"""Driver for TLC: runs a spec module from /verif/spec in a scratch directory,
collects the lines the spec prints (PrintT of ToJson strings) and TLC's own
statistics.  Two roles (DESIGN.md section 4): generator (behaviours / inputs out
of the specification) and judge (traces recorded from the implementation
checked against the specification).

Exit/exception policy: TLCError means the machinery failed (exit 2 upstream);
a property violation reported by TLC itself (invariant violated on the
*specification*) is returned in the result, never raised.
"""
from __future__ import annotations

import json
import os
import re
import shutil
import subprocess
import tempfile
import time
from concurrent.futures import ThreadPoolExecutor

SPEC_DIR = os.path.join(os.path.dirname(os.path.dirname(os.path.abspath(__file__))), "spec")
JAR = "/opt/veriftools/tla/tla2tools.jar:/opt/veriftools/tla/CommunityModules-deps.jar"


class TLCError(RuntimeError):
    pass


class TLCResult:
    def __init__(self):
        self.lines: list[str] = []  # payloads of PrintT("<tag> ...") lines (unescaped)
        self.generated = 0
        self.distinct = 0
        self.depth = 0
        self.violation: str | None = None  # name of violated invariant / property on the SPEC
        self.raw_tail = ""
        self.wall = 0.0
        self.coverage: dict[str, int] = {}
        self.ok = False

    def tagged(self, tag: str) -> list[str]:
        p = tag + " "
        return [l[len(p):] for l in self.lines if l.startswith(p)]

    def json_tagged(self, tag: str) -> list:
        return [json.loads(x) for x in self.tagged(tag)]


def scratch(prefix="pv") -> str:
    base = os.environ.get("VERIF_SCRATCH") or tempfile.gettempdir()
    return tempfile.mkdtemp(prefix=prefix + "-", dir=base)


_STR_LINE = re.compile(r'^"((?:[^"\\]|\\.)*)"$')


def _unescape(s: str) -> str:
    # TLC prints strings with \" and \\ escapes (and \n, \t)
    out = []
    i = 0
    while i < len(s):
        c = s[i]
        if c == "\\" and i + 1 < len(s):
            n = s[i + 1]
            out.append({"n": "\n", "t": "\t", '"': '"', "\\": "\\"}.get(n, "\\" + n))
            i += 2
        else:
            out.append(c)
            i += 1
    return "".join(out)


def _parse_output(text: str, res: TLCResult) -> None:
    for line in text.splitlines():
        m = _STR_LINE.match(line)
        if m:
            res.lines.append(_unescape(m.group(1)))
            continue
        m = re.match(r"^(\d+) states generated, (\d+) distinct states found", line)
        if m:
            res.generated = int(m.group(1))
            res.distinct = int(m.group(2))
            continue
        m = re.match(r"^The depth of the complete state graph search is (\d+)", line)
        if m:
            res.depth = int(m.group(1))
            continue
        m = re.match(r"^Error: Invariant (\S+) is violated", line)
        if m:
            res.violation = m.group(1)
            continue
        m = re.match(r"^Error: Action property (\S+) is violated", line)
        if m:
            res.violation = m.group(1)
            continue
        if "Temporal properties were violated" in line:
            res.violation = res.violation or "temporal"
        m = re.match(r"^<(\w+) line \d+, col \d+ to line \d+, col \d+ of module (\w+)>: (\d+):(\d+)", line)
        if m:
            res.coverage[m.group(1)] = res.coverage.get(m.group(1), 0) + int(m.group(4))
    if "Model checking completed. No error has been found." in text or "Finished computing initial states" in text and "Error:" not in text:
        res.ok = True
    if re.search(r"The number of states generated: (\d+)", text):  # simulation mode
        res.generated = max(res.generated, int(re.search(r"The number of states generated: (\d+)", text).group(1)))
        res.ok = res.ok or "Error:" not in text


def run(
    module: str,
    cfg_text: str,
    *,
    workdir: str | None = None,
    env: dict | None = None,
    workers: int | str = 1,
    simulate: str | None = None,
    depth: int | None = None,
    seed: int | None = None,
    timeout: int = 1800,
    extra_files: dict | None = None,
    coverage: bool = False,
    heap: str = "2g",
    allow_violation: bool = True,
    deadlock: bool = False,
) -> TLCResult:
    """Run TLC on spec/<module>.tla with the given cfg text."""
    own = workdir is None
    wd = workdir or scratch("tlc")
    try:
        for f in os.listdir(SPEC_DIR):
            if f.endswith(".tla"):
                shutil.copy(os.path.join(SPEC_DIR, f), wd)
        for name, content in (extra_files or {}).items():
            with open(os.path.join(wd, name), "w") as fh:
                fh.write(content)
        with open(os.path.join(wd, module + ".cfg"), "w") as fh:
            fh.write(cfg_text)
        cmd = [
            "java", "-XX:+UseSerialGC" if workers == 1 else "-XX:+UseParallelGC", "-Xmx" + heap, "-Xss64m",
            "-cp", JAR, "tlc2.TLC", "-noGenerateSpecTE", "-metadir", os.path.join(wd, "meta"),
            "-workers", str(workers), "-config", module + ".cfg",
        ]
        if not deadlock:
            cmd.append("-deadlock")  # -deadlock DISABLES deadlock checking
        if coverage:
            cmd += ["-coverage", "1"]
        if simulate:
            cmd += ["-simulate", simulate]
        if depth:
            cmd += ["-depth", str(depth)]
        if seed is not None:
            cmd += ["-seed", str(seed)]
        cmd.append(module)
        e = dict(os.environ)
        e.update(env or {})
        t0 = time.time()
        try:
            p = subprocess.run(cmd, cwd=wd, env=e, capture_output=True, text=True, timeout=timeout)
        except subprocess.TimeoutExpired as ex:
            raise TLCError(f"TLC timeout after {timeout}s on {module}") from ex
        res = TLCResult()
        res.wall = time.time() - t0
        out = p.stdout
        res.raw_tail = out[-3000:] + p.stderr[-1000:]
        _parse_output(out, res)
        fatal = re.search(r"(Parsing or semantic analysis failed|TLC threw an unexpected exception|Error: TLC encountered|was not a|Evaluating an expression of the form|Attempted to|The exception was|java\.lang\.\w+Error|Error: The|Error: In evaluation)", out)
        if fatal and not (res.violation and allow_violation):
            raise TLCError(f"TLC failed on {module}: {fatal.group(0)}\n{out[-2500:]}")
        if p.returncode != 0 and not res.violation:
            raise TLCError(f"TLC exit {p.returncode} on {module}\n{out[-2500:]}{p.stderr[-500:]}")
        return res
    finally:
        if own:
            shutil.rmtree(wd, ignore_errors=True)


def run_many(jobs: list[dict], parallel: int = 16) -> list[TLCResult]:
    """Run several TLC jobs (kwargs dicts for run) in parallel processes."""
    with ThreadPoolExecutor(max_workers=parallel) as ex:
        futs = [ex.submit(run, **j) for j in jobs]
        return [f.result() for f in futs]


def judge_shards(module: str, cfg_text: str, events: list, *, shard: int = 3000, parallel: int = 16,
                 env: dict | None = None, timeout: int = 1800, heap="2g", extra_files: dict | None = None) -> list[TLCResult]:
    """Write events as ndjson shards and run the judge module on each (workers 1)."""
    ncorrupt = int(os.environ.get("VERIF_CORRUPT") or 0)
    if ncorrupt:
        # ./check selftest: damage one recorded field in each of the first n events (the judge must reject them)
        from harness import selftest

        events = [selftest.corrupt(module, ev) if k < ncorrupt else ev for k, ev in enumerate(events)]
    wd = scratch("judge")
    try:
        jobs = []
        for k in range(0, len(events), shard):
            sub = os.path.join(wd, f"s{k // shard}")
            os.makedirs(sub)
            path = os.path.join(sub, "trace.ndjson")
            with open(path, "w") as fh:
                for ev in events[k:k + shard]:
                    fh.write(json.dumps(ev, separators=(",", ":")) + "\n")
            e = dict(env or {})
            e["TRACE_FILE"] = path
            jobs.append(dict(module=module, cfg_text=cfg_text, workdir=sub, env=e, workers=1, timeout=timeout, heap=heap, extra_files=extra_files))
        return run_many(jobs, parallel)
    finally:
        shutil.rmtree(wd, ignore_errors=True)
