------------------------------ MODULE PT_Meta ------------------------------
(***************************************************************************)
(* Behaviour outside the listed properties (DESIGN.md section 7).           *)
(*                                                                          *)
(* 1. is_aggregate: a three-valued vote ("T", "F", "N" = abstains) resolved *)
(*    over the operands of a composite term.  IsAgg is what the library     *)
(*    DOES (deviations from the intended reading are named):                *)
(*      DevFieldVotesFalse   a plain column votes "F" (Term's class         *)
(*                           default), so SUM(x) + y is "F" - intended -    *)
(*                           but so is a bare column                         *)
(*      DevUnaryVotesFalse   NOT c and c IS NULL do not look at their       *)
(*                           operand: always "F"                            *)
(*      DevWindowVotesFalse  an analytic (window) function votes "F"        *)
(*    IsAggIntended looks through unary nodes; the two agree on every tree  *)
(*    without NOT / IS NULL (AggAgree).                                     *)
(* 2. EmptyCriterion is a LEFT identity of AND / OR only:                   *)
(*      Criterion.all / any fold  crit := crit OP term  from EmptyCriterion *)
(*      E OP c = c, but c OP E builds a criterion that cannot be rendered   *)
(*    FoldCrit gives the outcome of the fold as the library computes it.    *)
(* 3. immutable = False: a builder call is the effect WITHOUT the copy step *)
(*    of PT_Sharing!Call - the receiver itself is returned (Mutable mode is *)
(*    stated in harness/x01.py against PT_Builder!Fold: same final state).  *)
(***************************************************************************)
EXTENDS Naturals, Sequences, FiniteSets, TLC

Votes == {"T", "F", "N"}
Resolve(vs) == LET s == {vs[i] : i \in DOMAIN vs} \ {"N"} IN IF s = {} THEN "N" ELSE IF s = {"T"} THEN "T" ELSE "F"
\* Python's  a or b  on votes (None and False are falsy)
Or3(a, b) == IF a = "T" THEN "T" ELSE b

AggFns == {"SUM", "MAX", "COUNT", "MIN", "AVG"}
RECURSIVE IsAgg(_), IsAggIntended(_), HasKind(_, _), HasAggCall(_)
MapSeq(s, Op(_)) == [i \in DOMAIN s |-> Op(s[i])]
IsAgg(t) ==
    CASE t.k = "fld" -> "F"
      [] t.k \in {"num", "str"} -> "N"
      [] t.k = "bin" -> Resolve(<<IsAgg(t.l), IsAgg(t.r)>>)
      [] t.k = "neg" -> IsAgg(t.a)
      [] t.k \in {"not", "isnull"} -> "F"
      [] t.k \in {"in", "between"} -> IsAgg(t.a)
      [] t.k = "call" -> IF t.f \in AggFns THEN "T" ELSE Resolve(MapSeq(t.args, IsAgg))
      [] t.k = "win" -> "F"
      [] t.k = "case" -> Resolve(<<Or3(IsAgg(t.w), IsAgg(t.t)), IsAgg(t.e)>>)
      [] OTHER -> "N"
IsAggIntended(t) ==
    CASE t.k = "fld" -> "F"
      [] t.k \in {"num", "str"} -> "N"
      [] t.k = "bin" -> Resolve(<<IsAggIntended(t.l), IsAggIntended(t.r)>>)
      [] t.k \in {"neg", "not", "isnull", "in", "between"} -> IsAggIntended(t.a)
      [] t.k = "call" -> IF t.f \in AggFns THEN "T" ELSE Resolve(MapSeq(t.args, IsAggIntended))
      [] t.k = "win" -> "F"
      [] t.k = "case" -> Resolve(<<Or3(IsAggIntended(t.w), IsAggIntended(t.t)), IsAggIntended(t.e)>>)
      [] OTHER -> "N"
Kids(t) == CASE t.k = "bin" -> <<t.l, t.r>>
             [] t.k \in {"neg", "not", "isnull"} -> <<t.a>>
             [] t.k = "in" -> <<t.a>> \o t.items
             [] t.k = "between" -> <<t.a, t.lo, t.hi>>
             [] t.k = "call" -> t.args
             [] t.k = "case" -> <<t.w, t.t, t.e>>
             [] OTHER -> <<>>
HasKind(t, ks) == t.k \in ks \/ \E i \in DOMAIN Kids(t) : HasKind(Kids(t)[i], ks)
HasAggCall(t) == (t.k = "call" /\ t.f \in AggFns) \/ \E i \in DOMAIN Kids(t) : HasAggCall(Kids(t)[i])

\* laws of the vote
ResolveLaws == /\ \A a, b \in Votes : Resolve(<<a, b>>) = Resolve(<<b, a>>)
               /\ \A a \in Votes : Resolve(<<a, a>>) = a /\ Resolve(<<a, "N">>) = a
               /\ \A a, b, c \in Votes : Resolve(<<Resolve(<<a, b>>), c>>) = Resolve(<<a, b, c>>)
AggSound(t) == IsAgg(t) = "T" => HasAggCall(t)
AggAgree(t) == ~HasKind(t, {"not", "isnull"}) => IsAgg(t) = IsAggIntended(t)

\* ---- EmptyCriterion folds: parts is a Seq over {"E"} \cup criterion ids; outcome of crit := crit OP part from E
RECURSIVE FoldFrom(_, _, _)
FoldFrom(parts, i, acc) ==   \* acc = [st |-> "E" | "ok" | "unrenderable", ids |-> Seq of criterion ids]
    IF i > Len(parts) THEN acc
    ELSE IF acc.st = "E" THEN FoldFrom(parts, i + 1, IF parts[i] = "E" THEN acc ELSE [st |-> "ok", ids |-> <<parts[i]>>])
    ELSE IF acc.st = "unrenderable" \/ parts[i] = "E" THEN FoldFrom(parts, i + 1, [st |-> "unrenderable", ids |-> <<>>])
    ELSE FoldFrom(parts, i + 1, [st |-> "ok", ids |-> Append(acc.ids, parts[i])])
FoldCrit(parts) == FoldFrom(parts, 1, [st |-> "E", ids |-> <<>>])
\* the intended algebra (identity on both sides): the non-empty parts in order
FoldIntended(parts) == LET ne == SelectSeq(parts, LAMBDA p : p # "E") IN IF ne = <<>> THEN [st |-> "E", ids |-> <<>>] ELSE [st |-> "ok", ids |-> ne]
\* CustomFunction(name, params)(*args): declared = "none" (no parameter list given) or the number of declared parameters, given = the number
\* of arguments of the call (both as strings "0".."4").  With a parameter list the call is accepted exactly when the numbers agree and the
\* function carries the arguments; WITHOUT one every call is accepted and its arguments are DROPPED (named deviation DevNoParamsDropsArgs:
\* F = CustomFunction("F"); F(x) renders F()).
CustomCall(declared, given) ==
    IF declared = "none" THEN [st |-> "ok", ids |-> <<"0">>]
    ELSE IF declared = given THEN [st |-> "ok", ids |-> <<given>>]
    ELSE [st |-> "FunctionException", ids |-> <<>>]
\* what a caller may rely on: an accepted call of a function WITH a parameter list carries exactly the declared number of arguments
ArityExact(declared, given) == LET r == CustomCall(declared, given) IN (declared # "none" /\ r.st = "ok") => r.ids = <<declared>>

\* The render paths of one statement - str(), repr(), get_sql() without a context, get_sql(the context of its query class) - are one
\* action: they yield one text (outs = the texts, in that order).
PathsAgree(outs) == \A i, j \in DOMAIN outs : outs[i] = outs[j]

LeftIdentityOnly(parts) == (FoldCrit(parts).st # "unrenderable") => FoldCrit(parts) = FoldIntended(parts)
=============================================================================
