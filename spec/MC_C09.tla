------------------------------- MODULE MC_C09 -------------------------------
(* Generator for C09: every sequence of <= MaxCalls row-limiting setter     *)
(* calls, with / without ORDER BY, at each nesting position.                *)
EXTENDS PT_Builder, Json
CONSTANTS MaxCalls
G_SrcTab(s) == [name |-> "t1", alias |-> "", kind |-> "table"]

Calls == {[m |-> "limit", n |-> n] : n \in {0, 5}} \cup {[m |-> "offset", n |-> n] : n \in {0, 3}}
         \cup {[m |-> "slice", start |-> p[1], stop |-> p[2]] : p \in {<<2, 7>>, <<-1, 4>>, <<2, -1>>, <<0, 4>>}}
         \cup {[m |-> "fetch_next", n |-> 6], [m |-> "top", n |-> 2, bad |-> FALSE]}
SetopCalls == {c \in Calls : c.m \in {"limit", "offset"}}
Positions == {"top", "subquery", "setop-operand", "setop", "cte", "in-subquery"}

VARIABLES b, hist, pos, ordered
Base(o) == IF o THEN [Empty EXCEPT !.from = <<"T1">>, !.sel = << [k |-> "fld", src |-> "T1", n |-> "a"] >>,
                                   !.ord = << [t |-> [k |-> "fld", src |-> "T1", n |-> "a"], dir |-> ""] >>]
           ELSE [Empty EXCEPT !.from = <<"T1">>, !.sel = << [k |-> "fld", src |-> "T1", n |-> "a"] >>]
Init == /\ pos \in Positions /\ ordered \in BOOLEAN
        /\ hist = <<>>
        /\ b = IF pos = "setop" THEN [Base(FALSE) EXCEPT !.ord = IF ordered THEN Base(TRUE).ord ELSE <<>>] ELSE Base(ordered)
Next == /\ Len(hist) < MaxCalls
        /\ \E c \in (IF pos = "setop" THEN SetopCalls ELSE Calls) :
              /\ hist' = Append(hist, c)
              /\ b' = Step(b, c)
        /\ UNCHANGED <<pos, ordered>>
\* last writer wins per slot
SlotsOK == /\ b.lim \in {-1, 0, 4, 5, 6, 7}
           /\ b.off \in {-1, 0, 2, 3}
Emit == PrintT("H " \o ToJson([hist |-> hist, pos |-> pos, ordered |-> ordered]))
=============================================================================
