"""C08 - one dialect's conventions govern the whole statement tree.

spec:  PT_Dialect (Conv per dialect, Broken = conventions a token stream breaks, Norm), MC_C08 (element x nesting construct x depth)
judge: J_C08 (OneDialect per rendering, mixed-built = natively built, Norm-equality over all dialect pairs for the neutral subset)
"""
from __future__ import annotations

import json

from harness import core, lexer, tlc

NEUTRAL = {"quoted-names", "placeholder", "boolean", "array", "interval", "interval-dialect-kw", "string-value", "alias", "backslash-string", "json-value", "user-parameter"}
JSONVAL = {"k": 'q"r', "p\\": ["it's", 1]}
STRINGS = {"string-value": ["it's"], "backslash-string": ["C:\\new\\t%_x"], "json-value": [json.dumps(JSONVAL)]}
BOOLMARK = "1"


def innermost(Qi, elem):
    """the innermost query, built with class Qi, carrying the dialect-sensitive element"""
    import pypika_tortoise as P
    from pypika_tortoise import functions as fn

    t = P.Table("t1")
    q = Qi.from_(t).select(t.a)
    if elem == "quoted-names":
        return q.select(t.field("my col")).where(t.b == 7)
    if elem == "placeholder":
        return q.where(t.b == 7).where(t.c == "x")
    if elem == "boolean":
        return q.where(t.b == True)  # noqa: E712
    if elem == "array":
        return q.where(t.b == P.Array(2, 3))
    if elem == "interval":
        # (as an arithmetic operand and directly as a function argument)
        return q.where(t.b > fn.Now() - P.Interval(days=5)).where(fn.Coalesce(t.c, P.Interval(hours=3)) == t.b)
    if elem == "interval-dialect-kw":
        # intervals constructed "for" a dialect (the constructor keyword): the rendering context still decides the literal form
        from pypika_tortoise.enums import Dialects
        return q.where(t.b > fn.Now() - P.Interval(days=5, dialect=Dialects.MYSQL)).where(t.c < fn.Now() + P.Interval(hours=3, dialect=Dialects.POSTGRESQL))
    if elem == "pagination":
        return q.orderby(t.a).limit(9).offset(4)
    if elem == "groupby-alias":
        f = (t.b + 2).as_("gal")
        return Qi.from_(t).select(f, fn.Count("*")).groupby(f)
    if elem == "string-value":
        return q.where(t.b == "it's")
    if elem == "alias":
        return Qi.from_(t).select(t.a.as_("al one"))
    if elem == "user-parameter":
        return q.where(t.b == P.Parameter(idx=1)).where(t.c == P.Parameter(idx=2))
    if elem == "backslash-string":
        return q.where(t.b == STRINGS[elem][0])
    if elem == "json-value":
        return q.where(t.b == JSONVAL)
    raise core.MachineryError(elem)


def select_arity(q):
    """number of select-list items of a query, read off its own rendering (no look at private attributes)"""
    toks = lexer.lex(str(q), "sqlite")
    sel = [t["d"] for t in toks if t["t"] == "word" and t["v"] == "SELECT"]
    if not sel:
        return 1
    top = min(sel)      # the outermost statement's own select list (a WITH clause's bodies are deeper)
    n, inside = 1, False
    for t in toks:
        if t["d"] != top:
            continue
        if t["t"] == "word" and t["v"] == "SELECT" and not inside:
            inside = True
        elif inside and t["t"] == "word" and t["v"] == "FROM":
            break
        elif inside and t["t"] == "punct" and t["v"] == ",":
            n += 1
    return n


def nest(Qo, Qi, q, construct):
    """embed q (built with Qi) in a statement of construct kind built with Qo"""
    import pypika_tortoise as P

    o = P.Table("ot")
    if construct == "top":
        return q
    if type(q).__name__ == "_SetOperation" and construct in ("setop-base", "setop-operand", "setop-base-ordered", "setop-other-class-operand", "create-as", "subquery-select", "subquery-join", "function-arg", "function-arg-orderby", "cmp-operand", "case-result"):
        return None  # a set operation is nested as a FROM / IN / CTE subquery only
    if construct == "subquery-from":
        return Qo.from_(q.as_("sq")).select("a")
    if construct == "subquery-join":
        s = q.as_("sj")
        return Qo.from_(o).join(s).on(o.k == s.a).select(o.k)
    if construct == "subquery-in":
        return Qo.from_(o).select(o.k).where(o.k.isin(q))
    if construct == "subquery-select":
        return Qo.from_(o).select(o.k, q.as_("ss"))
    if construct == "function-arg":
        from pypika_tortoise import functions as fn
        return Qo.from_(o).select(o.k, fn.Coalesce(q, o.j))
    if construct == "function-arg-orderby":
        from pypika_tortoise import functions as fn
        return Qo.from_(o).select(o.k).orderby(fn.Coalesce(q, o.j))
    if construct == "cmp-operand":
        return Qo.from_(o).select(o.k).where(o.k == q)
    if construct == "case-result":
        return Qo.from_(o).select(P.Case().when(o.k == o.j, q).else_(o.j))
    if construct == "cte":
        return Qo.with_(q, "cq").from_(P.AliasedQuery("cq")).select("a")
    n = select_arity(q)
    other = Qi.from_(o).select(*[o.field("k%d" % i) for i in range(n)])
    if construct == "setop-base":
        return q.union(other)
    if construct == "setop-operand":
        return other.union(q)
    if construct == "setop-other-class-operand":
        # a third operand built by a class with the OTHER bracket habit (MySQL's queries never ask for brackets, all others do): the base decides for all
        Qx = P.Query if Qo is P.MySQLQuery else P.MySQLQuery
        return q.union(other).union(Qx.from_(o).select(*[o.field("m%d" % i) for i in range(n)]))
    if construct == "setop-base-ordered":
        # the set operation's OWN tail (its ORDER BY belongs to the statement being rendered, whichever class built the base query)
        return q.union(other).orderby(P.Field("a"), P.Field("my col"))
    if construct == "insert-select":
        return None  # assembled on one builder; handled by the caller
    if construct == "create-as":
        return Qo.create_table("nt").as_select(q)
    raise core.MachineryError(construct)


def build(Qo, Qi, elem, nesting, cache=None):
    """cache (mixed mode): the generic-built inner part is built ONCE per program and embedded in the outer statement of every dialect in turn,
    so a literal / placeholder / quoting form remembered from an earlier dialect's rendering would reach the next one"""
    if cache is not None and "inner" in cache:
        q, start = cache["inner"], len(nesting) - 1
    else:
        q, start = innermost(Qi, elem), 0
    for k, c in enumerate(nesting):
        if k < start:
            continue
        last = k == len(nesting) - 1
        if last and cache is not None and "inner" not in cache:
            cache["inner"] = q
        Qc = Qo if last else Qi
        if c in ("insert-select", "insert-select-aliased-target"):
            # the statement so far becomes the row source of an INSERT (outermost position only): INSERT INTO ins [alias] (a) SELECT a FROM (<q>) isq
            if not last or type(q).__name__ == "_SetOperation":
                return None
            import pypika_tortoise as P
            tgt = P.Table("ins").as_("insa") if c.endswith("aliased-target") else P.Table("ins")
            q = Qc.into(tgt).columns("a").from_(q.as_("isq")).select("a")
            continue
        q = nest(Qc, Qi, q, c)
        if q is None:
            return None
        if not last and not hasattr(q, "get_sql"):
            return None
    return q


def render(obj, Q, param):
    from pypika_tortoise.terms import Parameterizer

    ctx = Q.SQL_CONTEXT
    if param:
        return obj.get_sql(ctx.copy(parameterizer=Parameterizer()))
    return obj.get_sql(ctx)


def run(tier: str) -> int:
    rep = core.Report("C08", tier)
    r = tlc.run("MC_C08", "INIT Init\nNEXT Next\nINVARIANT Emit\nINVARIANT Distinct\n", workers=4)
    rep.add_tlc(r)
    if r.violation or not r.ok:
        raise core.MachineryError(f"MC_C08: {r.violation}\n{r.raw_tail[-800:]}")
    progs = r.json_tagged("P")
    qc = core.query_classes()
    events, meta = [], []
    for p in progs:
        if any(c.startswith("insert-select") for c in p["nest"][:-1]) or ("create-as" in p["nest"][:-1]) or ("top" in p["nest"] and len(p["nest"]) > 1):
            continue  # (an INSERT / CREATE is a statement, not something to embed further)
        if tier == "quick" and len(p["nest"]) == 2 and p["nest"][0] in ("subquery-join", "subquery-select", "create-as") and p["nest"][1] in ("subquery-join", "create-as"):
            continue
        rs = []
        param = p["elem"] == "placeholder"
        ok = True
        shared = {}
        for d, Q in qc.items():
            for mode, Qi in (("native", Q), ("mixed", qc["generic"])):
                if mode == "mixed" and d == "generic":
                    continue
                try:
                    obj = build(Q, Qi, p["elem"], p["nest"], cache=shared if mode == "mixed" and "top" not in p["nest"] else None)
                    if obj is None:
                        ok = False
                        break
                    # the outermost object decides the context: render through the OUTER dialect's class
                    text = render(obj, Q, param)
                    if mode == "native" and not param:
                        # the statement's own default context is the same dialect: str() / get_sql() must agree with the explicit context
                        dflt = str(obj) if hasattr(type(obj), "__str__") and type(obj).__str__ is not object.__str__ else text
                        if dflt != text:
                            rep.discrepancy([[d, "default-context-differs", p["elem"], p["nest"][-1]]],
                                            {"dialect": d, "program": p, "explicit_context": text, "default_context": dflt},
                                            what="str() and get_sql(<the dialect's own context>) render differently")
                except Exception as ex:  # noqa
                    rep.discrepancy([[p["elem"], "/".join(p["nest"]), "raises:" + type(ex).__name__, d, mode]], {"program": p, "dialect": d, "mode": mode},
                                    what="building or rendering raises")
                    ok = False
                    break
                # (the library never writes [bracket] identifiers; "[" is the array literal of the generic renderer)
                toks = [{"t": t["t"], "v": t["v"], "q": t["q"]} for t in lexer.lex(text, "sqlite" if d == "mssql" else core.lex_dialect(d))]
                rs.append({"d": d, "mode": mode, "toks": toks, "_sql": text})
            if not ok:
                break
        if not ok or not rs:
            continue
        events.append({"tid": len(events), "r": [{k: v for k, v in x.items() if k != "_sql"} for x in rs], "boolmark": BOOLMARK, "aliases": ["gal", "al one"], "strings": STRINGS.get(p["elem"], []),
                       "neutral": p["elem"] in NEUTRAL and not any(c.startswith("setop") for c in p["nest"])})
        meta.append((p, rs))
    results = tlc.judge_shards("J_C08", "INIT Init\nNEXT Next\n", events, shard=max(40, len(events) // 16 + 1), heap="3g", timeout=3000)
    rep.add_tlc(results)
    if sum(max(x.distinct - 1, 0) for x in results) != len(events):
        raise core.MachineryError("J_C08 did not consume every event")
    rep.traces = sum(len(e["r"]) for e in events)
    rep.evaluations = rep.traces
    rep.distinct = {(m[0]["elem"], "/".join(m[0]["nest"])) for m in meta}
    bad = []
    for res in results:
        bad += res.json_tagged("V")
    for v in sorted(bad, key=lambda v: len(meta[v["tid"]][0]["nest"])):
        p, rs = meta[v["tid"]]
        sql = {(x["d"], x["mode"]): x["_sql"] for x in rs}
        nestk = "/".join(p["nest"])
        for d, mode, conv in sorted(v["one"]):
            rep.discrepancy([[d, mode, conv]] if conv == "set-operand-brackets" else [[d, mode, conv, p["elem"], p["nest"][0]], [d, mode, conv, p["elem"], nestk]],
                            {"dialect": d, "built": mode, "element": p["elem"], "nesting": p["nest"], "sql": sql[(d, mode)]},
                            what=f"convention '{conv}' of {d} is not followed inside {nestk}")
        for d, _ in sorted(v["mixed"]):
            # what differs: only the brackets around set operands (their own, class-based, convention) or the tokens themselves
            strip = lambda text: [(t["t"], t["v"]) for t in lexer.lex(text, "sqlite" if d == "mssql" else core.lex_dialect(d)) if t["v"] not in ("(", ")")]  # noqa: E731
            if any(c.startswith("setop") for c in p["nest"]) and strip(sql[(d, "native")]) == strip(sql[(d, "mixed")]):
                sigs = [[d, "mixed-differs", "set-operand-brackets-only"]]
            else:
                sigs = [[d, "mixed-differs", p["elem"], p["nest"][0]], [d, "mixed-differs", p["elem"], nestk]]
            rep.discrepancy(sigs, {"dialect": d, "element": p["elem"], "nesting": p["nest"], "native": sql[(d, "native")], "mixed": sql[(d, "mixed")]},
                            what="inner parts built with the generic classes render differently from parts built with the dialect's classes")
        for d1, d2 in sorted(v["pairs"]):
            rep.discrepancy([[d1, d2, "norm-differs", p["elem"], p["nest"][0]], [d1, d2, "norm-differs", p["elem"], nestk]],
                            {"dialects": [d1, d2], "element": p["elem"], "nesting": p["nest"], "a": sql[(d1, "native")], "b": sql[(d2, "native")]},
                            what="renderings under two dialects differ beyond the documented conventions")
    for k in (0, len(meta) // 2, len(meta) - 1):
        rep.sample({"program": meta[k][0], "renderings": {x["d"] + "/" + x["mode"]: x["_sql"] for x in meta[k][1][:4]}})
    rep.rule = (f"{len(meta)} programs = 13 dialect-sensitive elements x nesting constructs (14, at depth 1 and 2) rendered under 6 dialect classes, natively built and with "
                "inner parts built by the generic classes; TLC evaluates OneDialect per rendering, mixed = native, and Norm-equality over all ordered dialect pairs")
    rep.exhaustive = True
    return rep.finish()


def replay(path: str) -> int:
    print(json.dumps(json.load(open(path))["example"], indent=1))
    return 0
