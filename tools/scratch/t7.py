import time,sys
from harness import c14, tlc
t=time.time()
r = tlc.run("MC_C14Gen", c14.CFG % sys.argv[1], workers=16, heap="6g", extra_files={"MC_C14Gen.tla": c14.gen_module()}, timeout=1500)
print(r.ok, r.distinct, time.time()-t)
