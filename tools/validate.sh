#!/bin/bash
# validates MANIFEST.json and evidence/*.json against the task's schemas (uses the tooling venv's jsonschema)
python3-vt - <<'PY'
import glob, json, sys
import jsonschema
bad = 0
try:
    jsonschema.validate(json.load(open('/verif/MANIFEST.json')), json.load(open('/root/.vp/MANIFEST.schema.json')))
except Exception as e:
    print("MANIFEST:", str(e)[:300]); bad += 1
sch = json.load(open('/root/.vp/EVIDENCE.schema.json'))
for p in sorted(glob.glob('/verif/evidence/*.json')):
    try:
        jsonschema.validate(json.load(open(p)), sch)
    except Exception as e:
        print(p, str(e)[:300]); bad += 1
props = [json.loads(l)["id"] for l in open('/verif/properties.jsonl')]
m = json.load(open('/verif/MANIFEST.json'))
claimed = {c["property_id"] for c in m["checks"]} | {n["property_id"] for n in m.get("not_applicable", [])}
if set(props) != claimed:
    print("manifest does not account for", sorted(set(props) ^ claimed)); bad += 1
print("valid" if not bad else f"{bad} problem(s)")
sys.exit(1 if bad else 0)
PY
