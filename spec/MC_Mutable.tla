----------------------------- MODULE MC_Mutable -----------------------------
(* immutable = False against the default mode, on the heap model of         *)
(* PT_Sharing: two runs of the same chain of labels over the same scenario  *)
(* tables - one with Call (copy + effect; the chain continues from the new  *)
(* object), one with MCall (effect on the receiver itself).  SameContent:   *)
(* after every step the mutable object's view equals the view of the last   *)
(* object of the immutable chain.                                           *)
EXTENDS Naturals, Sequences, FiniteSets, TLC
CONSTANTS Scen, LabelsOf(_), HotOf(_), K(_), Recopied(_), Eff(_, _), MaxLen
VARIABLES scen, iobjs, icells, ielems, isnap, ihist, mobjs, mcells, melems, msnap, mhist
I == INSTANCE PT_Sharing WITH objs <- iobjs, cells <- icells, elems <- ielems, snap <- isnap, hist <- ihist,
                              MaxCalls <- MaxLen, MaxDeep <- MaxLen, Dups <- {}, DeepAny <- FALSE
M == INSTANCE PT_Sharing WITH objs <- mobjs, cells <- mcells, elems <- melems, snap <- msnap, hist <- mhist,
                              MaxCalls <- MaxLen, MaxDeep <- MaxLen, Dups <- {}, DeepAny <- FALSE
vars == <<scen, iobjs, icells, ielems, isnap, ihist, mobjs, mcells, melems, msnap, mhist>>
Init == I!Init /\ M!Init
Next == /\ Len(ihist) < MaxLen
        /\ \E l \in LabelsOf(scen) : I!Call(Len(iobjs), l) /\ M!MCall(1, l)
SameContent == I!ViewOf(iobjs[Len(iobjs)], icells, ielems) = M!ViewOf(mobjs[1], mcells, melems)
OneObject == Len(mobjs) = 1
=============================================================================
