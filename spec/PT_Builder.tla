----------------------------- MODULE PT_Builder -----------------------------
(***************************************************************************)
(* The query builder as a transition system over an ABSTRACT statement     *)
(* (DESIGN.md section 3.2 / appendix A, B).                                 *)
(*                                                                          *)
(*   state  b   : record of clause lists and flags (one per builder object) *)
(*   Call       : [m, ...args]   one @builder method call                   *)
(*   Raises(b, c)  : "" or the exception class the call must raise          *)
(*   Eff(b, c)     : the abstract state of the NEW object                   *)
(*   Fold(b0, calls) : state after a call history (raising calls leave the  *)
(*                     receiver's state, as the code does)                  *)
(*                                                                          *)
(* Projections of the statement a state denotes (what the properties talk   *)
(* about; every judge compares THESE with the same projection of the real   *)
(* token stream, never whole strings):                                      *)
(*   Kind, Complete, ClauseSeq(b, d)   C13                                  *)
(*   PagTail(b, d)                     C09                                  *)
(*   NeedsNS(b), QualSeq(b, d)         C11                                  *)
(*   AliasSeq(b, d)                    C12                                  *)
(*                                                                          *)
(* Terms are PT_Expr / PT_Eq trees; fields carry src (a source id or "")    *)
(* and every term may carry al (alias, "" = none).  Sources are ids with    *)
(* metadata in SrcTab (name, alias).                                        *)
(***************************************************************************)
EXTENDS PT_Terms, SequencesExt

CONSTANT SrcTab(_)      \* source id -> [name, alias, kind]   kind in "table", "subq", "cte", "setop"

Alias(t) == IF "al" \in DOMAIN t THEN t.al ELSE ""
SrcQual(s) == IF SrcTab(s).alias # "" THEN SrcTab(s).alias ELSE SrcTab(s).name

Empty == [ from |-> <<>>, sel |-> <<>>, star |-> FALSE, startabs |-> {}, distinct |-> FALSE,
           joins |-> <<>>, whr |-> <<>>, pre |-> <<>>, grp |-> <<>>, hav |-> <<>>, ord |-> <<>>,
           lim |-> -1, off |-> -1, top |-> -1,
           ins |-> "", cols |-> <<>>, vals |-> <<>>, replace |-> FALSE, selinto |-> FALSE,
           upd |-> "", sets |-> <<>>, del |-> FALSE,
           foreign |-> FALSE, forupd |-> FALSE, fidx |-> <<>>, uidx |-> <<>>,
           ctes |-> <<>>, ret |-> <<>>,
           oc |-> FALSE, ocf |-> <<>>, ocnothing |-> FALSE, ocupd |-> <<>>, ocw |-> <<>>, ocuw |-> <<>> ]

(***************************************************************************)
(* Availability of sources (C14 / C11)                                      *)
(***************************************************************************)
FromSet(b) == {b.from[i] : i \in DOMAIN b.from}
JoinedSet(b) == {b.joins[i].item : i \in DOMAIN b.joins}
CteSet(b) == {b.ctes[i] : i \in DOMAIN b.ctes}
BaseSet(b) == FromSet(b) \cup (IF b.upd # "" THEN {b.upd} ELSE {})

\* the library compares tables by (name, schema, alias): two ids with the same metadata are the same table
SameTable(x, y) == x = y \/ (x # "" /\ y # "" /\ SrcTab(x).kind = "table" /\ SrcTab(y).kind = "table"
                              /\ SrcTab(x).name = SrcTab(y).name /\ SrcTab(x).alias = SrcTab(y).alias
                              /\ SrcTab(x).schema = SrcTab(y).schema)
InSet(x, S) == \E y \in S : SameTable(x, y)
\* what a join criterion may refer to: FROM, the updated table, declared CTEs (by name), earlier joins, the joined item
AvailIn(x, b, item) == \/ InSet(x, BaseSet(b) \cup JoinedSet(b) \cup {item})
                       \/ (SrcTab(x).kind = "cte" /\ SrcTab(x).name \in CteSet(b))
CritSources(c) == TablesOf(c)

(***************************************************************************)
(* Guards: the exception a call must raise in state b ("" = none)           *)
(***************************************************************************)
Raises(b, c) ==
    CASE c.m = "into" -> IF b.ins # "" THEN "AttributeError" ELSE ""
      [] c.m = "update" -> IF b.upd # "" \/ b.sel # <<>> \/ b.del THEN "AttributeError" ELSE ""
      [] c.m = "delete" -> IF b.del \/ b.sel # <<>> \/ b.upd # "" THEN "AttributeError" ELSE ""
      [] c.m \in {"columns", "insert", "replace"} -> IF b.ins = "" THEN "AttributeError" ELSE ""
      [] c.m = "selectstr" -> IF b.from = <<>> THEN "QueryException" ELSE ""
      [] c.m \in {"orderbystr", "groupbystr"} -> IF b.from = <<>> THEN "IndexError" ELSE ""
      [] c.m = "on_conflict" -> IF b.ins = "" THEN "QueryException" ELSE ""
      [] c.m = "do_nothing" -> IF b.ocupd # <<>> THEN "QueryException" ELSE ""
      [] c.m = "do_update" -> IF b.ocnothing THEN "QueryException" ELSE ""
      [] c.m = "where" /\ b.oc ->
            IF b.ocnothing THEN "QueryException"
            ELSE IF b.ocf = <<>> THEN "QueryException" ELSE ""
      [] c.m = "join" ->
            IF c.kind = "on" /\ ~(\A s \in CritSources(c.crit) : AvailIn(s, b, c.item))
            THEN "JoinException" ELSE ""
      [] c.m = "top" -> IF c.bad THEN "QueryException" ELSE ""
      [] OTHER -> ""

(***************************************************************************)
(* Effects                                                                  *)
(***************************************************************************)
\* a criterion mentions a table that is neither a base table nor joined (sets the foreign-table flag)
Foreign(b, crit) == \E s \in CritSources(crit) : s # "" /\ ~InSet(s, BaseSet(b) \cup JoinedSet(b))

\* The select list, one item at a time, as QueryBuilder.select dispatches it:
\*  - a column is dropped once "*" was selected, or the star of its table (table membership is the library's table equality);
\*  - a table star removes the columns / star of that table selected so far, is remembered, and is dropped if it repeats;
\*  - anything else (function, arithmetic, constant) is appended whatever was selected before, even after "*".
\* (Not modelled: a Star() object without a table passed to select(); select("*") is the selectstr call.)
SelItem(b, t) ==
    IF t.k = "fld" THEN
        IF b.star \/ (t.src # "" /\ InSet(t.src, b.startabs)) THEN b ELSE [b EXCEPT !.sel = Append(@, t)]
    ELSE IF t.k = "star" /\ t.src # "" THEN
        IF b.star \/ InSet(t.src, b.startabs) THEN b
        ELSE [b EXCEPT !.sel = Append(SelectSeq(@, LAMBDA s : ~(s.k \in {"fld", "star"} /\ s.src # "" /\ SameTable(s.src, t.src))), t),
                       !.startabs = @ \cup {t.src}]
    ELSE [b EXCEPT !.sel = Append(@, t)]
RECURSIVE SelFold(_, _, _)
SelFold(b, ts, i) == IF i > Len(ts) THEN b ELSE SelFold(SelItem(b, ts[i]), ts, i + 1)
\* the select list as <<qualifier-source, what>> pairs (what: a column name, "*", "FN" for a call, "EXPR" otherwise)
SelProj(b) == [i \in DOMAIN b.sel |->
                 LET s == b.sel[i] IN
                 IF s.k = "fld" THEN <<s.src, s.n>> ELSE IF s.k = "star" THEN <<s.src, "*">>
                 ELSE IF s.k = "call" THEN <<"", "FN">> ELSE <<"", "EXPR">>]

Eff(b, c) ==
    CASE c.m = "from_" -> [b EXCEPT !.from = Append(@, c.src)]
      [] c.m = "select" -> SelFold(b, c.terms, 1)
      [] c.m = "selectstr" -> IF c.name = "*" THEN [b EXCEPT !.star = TRUE, !.sel = << [k |-> "star", src |-> ""] >>]
                              ELSE SelItem(b, [k |-> "fld", src |-> b.from[1], n |-> c.name, al |-> ""])
      [] c.m = "distinct" -> [b EXCEPT !.distinct = TRUE]
      [] c.m = "where" ->
            IF ~b.oc THEN [b EXCEPT !.whr = Append(@, c.crit), !.foreign = @ \/ Foreign(b, c.crit)]
            ELSE IF b.ocupd # <<>> THEN [b EXCEPT !.ocuw = Append(@, c.crit)]
            ELSE [b EXCEPT !.ocw = Append(@, c.crit)]
      [] c.m = "prewhere" -> [b EXCEPT !.pre = Append(@, c.crit), !.foreign = @ \/ Foreign(b, c.crit)]
      [] c.m = "having" -> [b EXCEPT !.hav = Append(@, c.crit)]
      [] c.m = "groupby" -> [b EXCEPT !.grp = @ \o c.terms]
      [] c.m = "orderby" -> [b EXCEPT !.ord = @ \o [i \in DOMAIN c.terms |-> [t |-> c.terms[i], dir |-> c.dir]]]
      [] c.m = "orderbystr" -> [b EXCEPT !.ord = Append(@, [t |-> [k |-> "fld", src |-> b.from[1], n |-> c.name, al |-> ""], dir |-> ""])]
      [] c.m = "groupbystr" -> [b EXCEPT !.grp = Append(@, [k |-> "fld", src |-> b.from[1], n |-> c.name, al |-> ""])]
      [] c.m = "join" -> [b EXCEPT !.joins = Append(@, [item |-> c.item, how |-> c.how, kind |-> c.kind, crit |-> c.crit, cols |-> c.cols])]
      [] c.m = "limit" -> [b EXCEPT !.lim = c.n]
      [] c.m = "fetch_next" -> [b EXCEPT !.lim = c.n]
      [] c.m = "offset" -> [b EXCEPT !.off = c.n]
      [] c.m = "slice" -> [b EXCEPT !.off = IF c.start >= 0 THEN c.start ELSE @, !.lim = IF c.stop >= 0 THEN c.stop ELSE @]
      [] c.m = "top" -> [b EXCEPT !.top = c.n]
      [] c.m = "into" -> [b EXCEPT !.ins = c.src, !.selinto = b.sel # <<>>]
      [] c.m = "columns" -> [b EXCEPT !.cols = @ \o c.names]
      [] c.m = "insert" -> [b EXCEPT !.vals = Append(@, c.row), !.replace = FALSE]
      [] c.m = "replace" -> [b EXCEPT !.vals = Append(@, c.row), !.replace = TRUE]
      [] c.m = "update" -> [b EXCEPT !.upd = c.src]
      [] c.m = "set" -> [b EXCEPT !.sets = Append(@, [col |-> c.col, val |-> c.val])]
      [] c.m = "setf" -> [b EXCEPT !.sets = Append(@, [col |-> c.f.n, val |-> c.val])]
      [] c.m = "columnsf" -> [b EXCEPT !.cols = Append(@, c.f.n)]
      [] c.m = "returning" -> [b EXCEPT !.ret = @ \o c.terms]
      [] c.m = "delete" -> [b EXCEPT !.del = TRUE]
      [] c.m = "for_update" -> [b EXCEPT !.forupd = TRUE]
      [] c.m = "force_index" -> [b EXCEPT !.fidx = Append(@, c.name)]
      [] c.m = "use_index" -> [b EXCEPT !.uidx = Append(@, c.name)]
      [] c.m = "with_" -> [b EXCEPT !.ctes = Append(@, c.name)]
      [] c.m = "on_conflict" -> [b EXCEPT !.oc = TRUE, !.ocf = @ \o c.names]
      [] c.m = "do_nothing" -> [b EXCEPT !.ocnothing = TRUE]
      [] c.m = "do_update" -> [b EXCEPT !.ocupd = Append(@, [col |-> c.col, val |-> c.val])]
      [] OTHER -> b

Step(b, c) == IF Raises(b, c) # "" THEN b ELSE Eff(b, c)

RECURSIVE Fold(_, _)
Fold(b, calls) == IF calls = <<>> THEN b ELSE Fold(Step(b, Head(calls)), Tail(calls))

\* exception classes along a history
RECURSIVE RaiseSeq(_, _)
RaiseSeq(b, calls) == IF calls = <<>> THEN <<>> ELSE <<Raises(b, Head(calls))>> \o RaiseSeq(Step(b, Head(calls)), Tail(calls))

(***************************************************************************)
(* What the state denotes                                                   *)
(***************************************************************************)
Kind(b) == IF b.upd # "" THEN "UPDATE"
           ELSE IF b.del THEN "DELETE"
           ELSE IF b.ins # "" /\ ~b.selinto THEN "INSERT"
           ELSE "SELECT"
Complete(b) == /\ (b.sel # <<>> \/ b.ins # "" \/ b.del \/ b.upd # "")
               /\ (b.ins # "" => (b.sel # <<>> \/ b.vals # <<>>))
               /\ (b.upd # "" => b.sets # <<>>)
               /\ ((b.del /\ b.upd = "") => b.from # <<>>)     \* DELETE needs its FROM (the code renders "DELETE WHERE ..." without it)

\* exceptions raised by rendering a state (dialects with the generic ON CONFLICT renderer): an incomplete state renders "" before
\* the conflict clause is looked at
RenderRaises(b, d) ==
    IF b.oc /\ b.upd = "" /\ d # "mysql" /\ Complete(b) THEN
        (IF ~b.ocnothing /\ b.ocupd = <<>> THEN (IF b.ocf = <<>> THEN "" ELSE "QueryException")
         ELSE IF b.ocupd # <<>> /\ b.ocf = <<>> THEN "QueryException" ELSE "")
    ELSE ""

HasSubqFrom(b) == b.from # <<>> /\ SrcTab(b.from[1]).kind = "subq"
\* WHERE / PREWHERE mention a table that is not one of the statement's own sources (decided against the CURRENT
\* sources: independent of whether where() came before or after from_() / update())
ForeignNow(b) == (\E i \in DOMAIN b.whr : Foreign(b, b.whr[i])) \/ (\E i \in DOMAIN b.pre : Foreign(b, b.pre[i]))
NeedsNS(b) == /\ ~(b.ins # "" /\ ~b.selinto /\ b.vals # <<>>)    \* INSERT .. VALUES has exactly one row source
              /\ \/ b.joins # <<>>
                 \/ Len(b.from) > 1
                 \/ HasSubqFrom(b)
                 \/ ForeignNow(b)
                 \/ (b.upd # "" /\ b.from # <<>>)

\* the head of a SELECT, between the keyword and the first select item: DISTINCT, then (SQL Server) TOP (n) - in that order, which is the
\* only one T-SQL accepts
SelHead(b, d) == (IF b.distinct THEN <<"DISTINCT">> ELSE <<>>) \o (IF d = "mssql" /\ b.top >= 0 THEN <<"TOP", "(", ToString(b.top), ")">> ELSE <<>>)

(***************************************************************************)
(* C09: the row-limiting tail, as a token-payload sequence                  *)
(*   d in generic sqlite mysql postgresql mssql oracle                      *)
(***************************************************************************)
NumStr(n) == ToString(n)
PagTail(b, d, ph) ==
    \* ph = TRUE: parameterised rendering, values appear as "?"-class placeholders (token payload "PH")
    LET v(n) == IF ph THEN "PH" ELSE NumStr(n) IN
    IF d \in {"mssql"} THEN
        (IF b.lim >= 0 \/ b.off >= 0 THEN
             (IF b.ord = <<>> THEN <<"ORDER", "BY", "(", "SELECT", "0", ")">> ELSE <<>>)
             \o <<"OFFSET", (IF b.off >= 0 THEN v(b.off) ELSE "0"), "ROWS">>
             \o (IF b.lim >= 0 THEN <<"FETCH", "NEXT", v(b.lim), "ROWS", "ONLY">> ELSE <<>>)
         ELSE <<>>)
    ELSE IF d = "oracle" THEN
        (IF b.off >= 0 THEN <<"OFFSET", v(b.off), "ROWS">> ELSE <<>>)
        \o (IF b.lim >= 0 THEN <<"FETCH", "NEXT", v(b.lim), "ROWS", "ONLY">> ELSE <<>>)
    ELSE
        \* LIMIT n [OFFSET m]; an offset without a limit needs a limit in SQLite and MySQL (PostgreSQL accepts it)
        (IF b.lim >= 0 THEN <<"LIMIT", v(b.lim)>> ELSE <<>>)
        \o (IF b.off >= 0 THEN <<"OFFSET", v(b.off)>> ELSE <<>>)
\* which forms are grammatical at all
PagGrammatical(b, d) == ~(d \in {"sqlite", "mysql", "generic"} /\ b.off >= 0 /\ b.lim < 0)
\* parameter order: values in the order the slots appear in PagTail
PagParams(b, d) ==
    IF d = "mssql" THEN (IF b.lim >= 0 \/ b.off >= 0 THEN (IF b.off >= 0 THEN <<b.off>> ELSE <<>>) \o (IF b.lim >= 0 THEN <<b.lim>> ELSE <<>>) ELSE <<>>)
    ELSE IF d = "oracle" THEN (IF b.off >= 0 THEN <<b.off>> ELSE <<>>) \o (IF b.lim >= 0 THEN <<b.lim>> ELSE <<>>)
    ELSE (IF b.lim >= 0 THEN <<b.lim>> ELSE <<>>) \o (IF b.off >= 0 THEN <<b.off>> ELSE <<>>)

(***************************************************************************)
(* C13: clause keyword sequence at depth 0                                  *)
(***************************************************************************)
RECURSIVE JoinKw(_, _)
JoinKw(js, i) == IF i > Len(js) THEN <<>> ELSE <<"JOIN">> \o JoinKw(js, i + 1)

ClauseSeq(b, d) ==
    IF ~Complete(b) THEN <<>>
    ELSE LET k == Kind(b)
             pag == IF b.lim >= 0 \/ b.off >= 0 THEN <<"PAG">> ELSE <<>>
             pagsel == pag
             joins == JoinKw(b.joins, 1)
             whr == IF b.whr # <<>> THEN <<"WHERE">> ELSE <<>>
             ord == IF b.ord # <<>> THEN <<"ORDER BY">> ELSE <<>>
             from == IF b.from # <<>> THEN <<"FROM">> ELSE <<>>
             tail == (IF b.fidx # <<>> THEN <<"FORCE INDEX">> ELSE <<>>) \o (IF b.uidx # <<>> THEN <<"USE INDEX">> ELSE <<>>)
                     \o joins \o (IF b.pre # <<>> THEN <<"PREWHERE">> ELSE <<>>) \o whr
                     \o (IF b.grp # <<>> THEN <<"GROUP BY">> ELSE <<>>) \o (IF b.hav # <<>> THEN <<"HAVING">> ELSE <<>>)
                     \o ord \o pagsel \o (IF b.forupd THEN <<"FOR UPDATE">> ELSE <<>>)
             rets == IF b.ret # <<>> /\ d = "postgresql" THEN <<"RETURNING">> ELSE <<>>
             ocs == IF b.oc /\ d # "mysql" /\ (b.ocnothing \/ b.ocupd # <<>>) THEN <<"ON CONFLICT">> \o (IF b.ocupd # <<>> THEN <<"DO UPDATE">> ELSE <<"DO NOTHING">>)
                    ELSE IF b.oc /\ d = "mysql" /\ b.ocupd # <<>> THEN <<"ON DUPLICATE KEY UPDATE">> ELSE <<>>
         IN
         IF k = "UPDATE" THEN
             (IF d \in {"postgresql", "sqlite"}
              THEN <<"UPDATE", "SET">> \o (IF b.from # <<>> \/ b.joins # <<>> THEN <<"FROM">> ELSE <<>>) \o joins \o whr
                   \o ord \o (IF b.lim >= 0 THEN <<"PAG">> ELSE <<>>) \o rets
              ELSE <<"UPDATE">> \o joins \o <<"SET">> \o from \o whr
                   \o (IF d = "mysql" THEN ord \o (IF b.lim >= 0 THEN <<"PAG">> ELSE <<>>) ELSE <<>>))
         ELSE IF k = "DELETE" THEN <<"DELETE">> \o from \o tail \o rets
         ELSE IF k = "INSERT" THEN
             (IF b.vals # <<>> THEN <<(IF b.replace THEN "REPLACE INTO" ELSE "INSERT INTO"), "VALUES">> \o ocs \o rets
              ELSE <<(IF b.replace THEN "REPLACE INTO" ELSE "INSERT INTO"), "SELECT">> \o from \o tail \o ocs \o rets)
         ELSE <<"SELECT">> \o (IF b.ins # "" THEN <<"INTO">> ELSE <<>>) \o from \o tail \o ocs

(***************************************************************************)
(* C11: expected qualifier of every column reference, in textual order      *)
(***************************************************************************)
RECURSIVE FieldSeq(_), FieldSeqOfSeq(_)
FieldSeqOfSeq(s) == IF s = <<>> THEN <<>> ELSE FieldSeq(Head(s)) \o FieldSeqOfSeq(Tail(s))
\* fields of a term in the order they are written
FieldSeq(t) ==
    CASE t.k = "fld" -> <<t>>
      [] t.k = "bin" -> FieldSeq(t.l) \o FieldSeq(t.r)
      [] t.k \in {"neg", "not", "isnull"} -> FieldSeq(t.a)
      [] t.k = "in" -> FieldSeq(t.a) \o FieldSeqOfSeq(t.items)
      [] t.k = "between" -> FieldSeq(t.a) \o FieldSeq(t.lo) \o FieldSeq(t.hi)
      [] t.k = "call" -> FieldSeqOfSeq(t.args)
      [] t.k = "case" -> FieldSeq(t.w) \o FieldSeq(t.t) \o FieldSeq(t.e)
      [] OTHER -> <<>>

\* qualifier of one field reference: always when its source is aliased, else iff the statement needs namespaces
QualOf(f, ns) == IF f.src = "" THEN ""
                 ELSE IF SrcTab(f.src).alias # "" THEN SrcTab(f.src).alias
                 ELSE IF ns THEN SrcTab(f.src).name ELSE ""

QualsOf(terms, ns, clause) ==
    LET fs == FieldSeqOfSeq(terms) IN [i \in DOMAIN fs |-> <<clause, QualOf(fs[i], ns), fs[i].n>>]
BareOf(names, clause) == [i \in DOMAIN names |-> <<clause, "", names[i]>>]

SeqMap1(s) == [i \in DOMAIN s |-> s[i].t]
SetVals(s) == [i \in DOMAIN s |-> s[i].val]
SetCols(s) == [i \in DOMAIN s |-> s[i].col]
RECURSIVE JoinQuals(_, _, _)
JoinQuals(js, i, ns) ==
    IF i > Len(js) THEN <<>>
    ELSE (IF js[i].kind = "on" THEN QualsOf(<<js[i].crit>>, ns, "JOIN")
          ELSE IF js[i].kind = "using" THEN BareOf(js[i].cols, "JOIN") ELSE <<>>) \o JoinQuals(js, i + 1, ns)
RECURSIVE ValsQuals(_, _, _)
ValsQuals(rows, i, ns) == IF i > Len(rows) THEN <<>> ELSE QualsOf(rows[i], ns, "VALUES") \o ValsQuals(rows, i + 1, ns)

RECURSIVE SetQuals(_, _, _)
\* SET targets are bare names, the assigned values are ordinary references
SetQuals(sets, i, ns) == IF i > Len(sets) THEN <<>>
                         ELSE << <<"SET", "", sets[i].col>> >> \o QualsOf(<<sets[i].val>>, ns, "SET") \o SetQuals(sets, i + 1, ns)

RECURSIVE OcUpdQuals(_, _, _)
OcUpdQuals(us, i, ns) == IF i > Len(us) THEN <<>>
                         ELSE << <<"ON CONFLICT", "", us[i].col>> >> \o QualsOf(<<us[i].val>>, ns, "ON CONFLICT") \o OcUpdQuals(us, i + 1, ns)

\* expected (clause, qualifier, column) triples of the whole statement, in textual order per statement kind and dialect
QualSeq(b, d) ==
    IF ~Complete(b) THEN <<>>
    ELSE LET ns == NeedsNS(b)
             k == Kind(b)
             selq == QualsOf(b.sel, ns, "SELECT")
             joinq == JoinQuals(b.joins, 1, ns)
             whrq == QualsOf(b.whr, ns, "WHERE")
             ordq == QualsOf(SeqMap1(b.ord), ns, "ORDER BY")
             tailq == joinq \o QualsOf(b.pre, ns, "PREWHERE") \o whrq \o QualsOf(b.grp, ns, "GROUP BY")
                      \o QualsOf(b.hav, ns, "HAVING") \o ordq
             setq == SetQuals(b.sets, 1, ns)
             \* ON CONFLICT (targets bare) [WHERE index predicate] DO UPDATE SET col = value, .. [WHERE ..]: SET targets are bare names,
             \* the assigned values and the DO UPDATE predicate are always qualified (they must be told from EXCLUDED.col)
             ocq == IF b.oc /\ d # "mysql"
                    THEN BareOf(b.ocf, "ON CONFLICT") \o QualsOf(b.ocw, ns, "ON CONFLICT")
                         \o OcUpdQuals(b.ocupd, 1, TRUE) \o (IF b.ocupd # <<>> THEN QualsOf(b.ocuw, TRUE, "ON CONFLICT") ELSE <<>>)
                    \* MySQL: ON DUPLICATE KEY UPDATE col = value, no target list, no predicates; one row source, so nothing is qualified
                    ELSE IF b.oc THEN OcUpdQuals(b.ocupd, 1, FALSE)
                    ELSE <<>>
             retq == IF d = "postgresql" THEN QualsOf(b.ret, ns, "RETURNING") ELSE <<>>
         IN
         IF k = "SELECT" THEN selq \o tailq
         ELSE IF k = "DELETE" THEN tailq \o retq
         ELSE IF k = "INSERT" THEN BareOf(b.cols, "COLUMNS")
                                   \o (IF b.vals # <<>> THEN ValsQuals(b.vals, 1, ns) \o ocq ELSE selq \o tailq \o ocq) \o retq
         ELSE IF d \in {"postgresql", "sqlite"} THEN setq \o joinq \o whrq \o ordq \o retq
         ELSE joinq \o setq \o whrq \o (IF d = "mysql" THEN ordq ELSE <<>>)

\* The sources of one statement level are addressed by their exposed names (alias, else table name; un-aliased subqueries receive automatic
\* sqN aliases): the names are pairwise distinct and every qualifier written at that level is one of them.
ExposedOK(names, quals) == /\ \A i, j \in DOMAIN names : i # j => names[i] # names[j]
                           /\ \A k \in DOMAIN quals : \E i \in DOMAIN names : names[i] = quals[k]
ExposedWhy(names, quals) == IF \E i, j \in DOMAIN names : i # j /\ names[i] = names[j] THEN "two-sources-share-a-name" ELSE "qualifier-names-no-source"

(***************************************************************************)
(* C12: where aliases are printed                                           *)
(***************************************************************************)
\* aliases defined by the select list, in order; GROUP BY / ORDER BY may refer to them
SelAliases(b) == {Alias(b.sel[i]) : i \in DOMAIN b.sel} \ {""}
\* expected sequence of <<clause, alias>> occurrences: select items that carry an alias print it; a GROUP BY /
\* ORDER BY term whose alias the select list defines is written as that alias (where the dialect allows)
AliasSeq(b, d) ==
    IF ~Complete(b) \/ Kind(b) # "SELECT" THEN <<>>
    ELSE LET selA == SelectSeq(b.sel, LAMBDA t : Alias(t) # "")
             grpA == SelectSeq(b.grp, LAMBDA t : Alias(t) # "" /\ Alias(t) \in SelAliases(b) /\ d \notin {"mssql", "oracle"})
             ordA == SelectSeq(SeqMap1(b.ord), LAMBDA t : Alias(t) # "" /\ Alias(t) \in SelAliases(b))
         IN [i \in DOMAIN selA |-> <<"SELECT", Alias(selA[i])>>]
            \o [i \in DOMAIN grpA |-> <<"GROUP BY", Alias(grpA[i])>>]
            \o [i \in DOMAIN ordA |-> <<"ORDER BY", Alias(ordA[i])>>]

\* ORDER BY of a SET OPERATION (first UNION later ... ORDER BY ords): the result's column names are those of the FIRST operand, so a
\* term is written as an alias only if the first operand's select list defines that alias; an alias only a later operand defines
\* names no column of the result and the term is written out
SetopAliasSeq(first, later, ords) ==
    LET firstA == SelectSeq(first, LAMBDA t : Alias(t) # "")
        laterA == SelectSeq(later, LAMBDA t : Alias(t) # "")
        firstAl == {Alias(first[i]) : i \in DOMAIN first} \ {""}
        ordA == SelectSeq(ords, LAMBDA t : Alias(t) # "" /\ Alias(t) \in firstAl)
    IN [i \in DOMAIN firstA |-> <<"SELECT", Alias(firstA[i])>>]
       \o [i \in DOMAIN laterA |-> <<"SELECT", Alias(laterA[i])>>]
       \o [i \in DOMAIN ordA |-> <<"ORDER BY", Alias(ordA[i])>>]
=============================================================================
