"""C02 - rendering is a pure, repeatable, process-independent function.

spec:  PT_RenderConc (k renderer threads over one shared object, micro-steps with a measured write footprint)
judge: J_Render (every recorded render must leave the structural digest unchanged and agree with the first output recorded for
       that context in any repetition, process (PYTHONHASHSEED) or thread)
"""
from __future__ import annotations

import datetime
import decimal
import hashlib
import json
import uuid
import os
import subprocess
import sys
import threading

from harness import c01, catalog, core, observe, tlc


PROBE = [None]
_PROBE_CLS = [None]


def probe_table_cls():
    """a Table that calls PROBE[0] whenever it is rendered: the state of the statement it belongs to can be looked at DURING a render
    (a write that is undone before get_sql returns is invisible to a before/after comparison)"""
    if _PROBE_CLS[0] is None:
        import pypika_tortoise as P

        class ProbeTable(P.Table):
            def get_sql(self, ctx):
                if PROBE[0] is not None:
                    PROBE[0]()
                return super().get_sql(ctx)
        ProbeTable.__name__ = "Table"
        _PROBE_CLS[0] = ProbeTable
    return _PROBE_CLS[0]


def shape(o):
    """cheap structural fingerprint of the top level of an object: container attributes with their lengths, scalars by repr"""
    out = []
    for a, v in sorted(vars(o).items()) if hasattr(o, "__dict__") else []:
        if isinstance(v, (list, tuple, set, frozenset, dict)):
            out.append((a, type(v).__name__, len(v)))
        elif isinstance(v, (str, int, float, bool, type(None))):
            out.append((a, repr(v)))
    return out


def objects(tier):
    """(key, maker) for every object rendered: each seed and each seed after one labelled call"""
    catalog.TABLE_CLS = probe_table_cls()
    try:
        fams = catalog.families()
    finally:
        catalog.TABLE_CLS = None
    out = []
    for fname, fam in fams.items():
        for sname in fam.seeds:
            out.append((f"{fname}.{sname}", fname, sname, None))
            for lname in fam.labels:
                if lname == "for_update#of-many":
                    continue  # (its table names are CHOSEN by a search under this process's string hashing: not one program across hash seeds)
                out.append((f"{fname}.{sname}/{lname}", fname, sname, lname))
    extra = extra_objects()
    return fams, out, extra


def extra_objects():
    """hash-order sensitive or otherwise special renderables"""
    import pypika_tortoise as P
    from pypika_tortoise import functions as fn

    t1, t2 = P.Table("t1"), P.Table("t2")
    out = {}
    for d, Q in core.query_classes().items():
        out[f"x.{d}.forupdate_of3"] = lambda Q=Q: Q.from_(t1).select(t1.a).for_update(of=("t1", "t2", "zeta", "alpha", "m"))
        out[f"x.{d}.forupdate_of2"] = lambda Q=Q: Q.from_(t1).join(t2).on(t1.a == t2.a).select(t1.a).for_update(of=("t2", "t1"))
        out[f"x.{d}.stars"] = lambda Q=Q: Q.from_(t1).join(t2).on(t1.a == t2.a).select(t1.star, t2.star, t1.b)
        out[f"x.{d}.filter_many"] = lambda Q=Q: Q.from_(t1).select(fn.Sum(t1.a).filter(t1.b == 1, t1.c == 2, t1.d == 3, t1.e == 4))
        out[f"x.{d}.isin_set"] = lambda Q=Q: Q.from_(t1).select(t1.a).where(t1.a.isin(["q", "w", "e", "r", "t", "y"]))
        out[f"x.{d}.tuple_join"] = lambda Q=Q: Q.from_(t1).join(t2).on(t1.a == t2.a).select(t1.a).where(P.Tuple(t1.a, t1.b).isin([(1, 2), (3, 4)]))
        out[f"x.{d}.rollup_set"] = lambda Q=Q: Q.from_(t1).select(t1.a, fn.Count("*")).rollup([t1.a, t1.b], t1.c)
        # constants whose literal form differs between dialects (escape rules, boolean / array / interval forms), at generic-wrapper positions
        out[f"x.{d}.values"] = lambda Q=Q: (Q.from_(t1).select(t1.a, fn.Coalesce(t1.b, "C:\\dir\\'q'"))
                                            .where(t1.j == {"name": "café", "note": 'say "hi"', "p\\": [1, None, True]})
                                            .where(t1.c == "back\\slash").where(t1.d == True)  # noqa: E712
                                            .where(t1.e.isin(["it's", 'dq"', "%s?"])).where(t1.f == P.Array(1, 2))
                                            .where(t1.g > fn.Now() - P.Interval(days=1, hours=2)).where(t1.j.contains({"k": "v\\w"})))
        out[f"x.{d}.schema_names"] = lambda Q=Q: (Q.from_(P.Table("t", schema=("db", "My Sch"))).join(P.Table("u", schema="s`q")).on_field("a")
                                                  .select(P.Table("t", schema=("db", "My Sch")).field("co\"l")))
        # parts built with immutable=False inside an ordinary statement: a render of the statement must not call their (in-place) builder methods
        out[f"x.{d}.mutable_parts"] = lambda Q=Q: (lambda sub: Q.from_(t1).select(t1.a, sub).groupby(sub).orderby(sub).where(t1.b.isin(Q.from_(t2, immutable=False).select(t2.b))))(
            Q.from_(t2, immutable=False).select(fn.Max(t2.a)).as_("mx"))
        out[f"x.{d}.mutable_update_join"] = lambda Q=Q: Q.update(t1, immutable=False).join(t2).on(t1.a == t2.a).set(t1.b, t2.b).where(t1.c == 1)
        out[f"x.{d}.mutable_upsert"] = lambda Q=Q: Q.into(t1, immutable=False).columns("a", "b").insert(1, 2).on_conflict("a").do_update("b", 3)
        out[f"x.{d}.mutable_delete_join"] = lambda Q=Q: Q.from_(t1, immutable=False).join(t2).on(t1.a == t2.a).where(t2.b == 1).delete()
        out[f"x.{d}.mutable_root"] = lambda Q=Q: Q.from_(t1, immutable=False).select(t1.a.as_("al"), fn.Count("*")).groupby(t1.a.as_("al")).orderby(t1.a.as_("al")).limit(3)
        # temporal constants (aware / naive) where the dialect's own wrapper class formats them: SET values, selected constants, INSERT rows
        out[f"x.{d}.temporal_values"] = lambda Q=Q: (Q.update(t1).set(t1.a, datetime.time(1, 2, 3, tzinfo=datetime.timezone.utc))
                                                     .set(t1.b, datetime.datetime(2020, 1, 2, 3, 4, 5, tzinfo=datetime.timezone(datetime.timedelta(hours=2))))
                                                     .set(t1.c, datetime.date(2020, 2, 29)).where(t1.d == datetime.time(4, 5, 6, 7)))
        out[f"x.{d}.temporal_select"] = lambda Q=Q: (lambda b: b.select(core.wrapper_cls(b)(datetime.time(1, 2, 3, tzinfo=datetime.timezone.utc)),
                                                                       core.wrapper_cls(b)(datetime.datetime(2020, 1, 2, tzinfo=datetime.timezone.utc)), core.wrapper_cls(b)(uuid.UUID(int=5)),
                                                                       core.wrapper_cls(b)(decimal.Decimal("1.50"))))(Q.from_(t1))
        # the SAME element named several times in every list-valued clause (a set-based de-duplication would order by hash)
        out[f"x.{d}.repeats"] = lambda Q=Q: (Q.from_(t1).force_index("ix_b", "ix_a", "ix_zeta").force_index("ix_a", "ix_m", "ix_b").use_index("ix_q", "ix_c").use_index("ix_c", "ix_k", "ix_q")
                                             .select(t1.b, t1.a, t1.b, t1.zeta, t1.a).groupby(t1.zeta, t1.a, t1.zeta, t1.m, t1.a).orderby(t1.m, t1.a, t1.m, t1.q, t1.a)
                                             .where(t1.a.isin(["w", "q", "w", "e", "q"])).for_update(of=("t2", "t1", "t2", "zeta", "t1")))
        out[f"x.{d}.repeats_dml"] = lambda Q=Q: (Q.into(t1).columns("b", "a", "zeta", "m").insert(1, 2, 3, 4).insert(1, 2, 3, 4).on_conflict("zeta", "a", "m")
                                                 .do_update("b", 1).do_update("zeta", 2).do_update("m", 3).do_update("q", 4))
        out[f"x.{d}.upsert_values"] = lambda Q=Q: Q.into(t1).insert(1, "a\\b", {"k": "v\\"}).on_conflict("a").do_update("b", "c\\d")
    return out


def make(fams, fname, sname, lname):
    fam = fams[fname]
    o = fam.seeds[sname]()
    if lname is not None:
        try:
            o = fam.labels[lname].fn(o)
        except Exception:  # noqa
            return None
    return o


def ctx_repr():
    """the context objects a render is GIVEN (the dialect classes' SQL_CONTEXT, the module default) are part of what it must not write:
    they are shared by every later render"""
    from pypika_tortoise import context as C

    out = {d: repr(c) for d, c in core.contexts().items()}
    out["DEFAULT_SQL_CONTEXT"] = repr(getattr(C, "DEFAULT_SQL_CONTEXT", None))
    return out


def sdigest(o):
    return hashlib.sha1((c01.deep_repr(o) + repr(sorted(ctx_repr().items()))).encode("utf-8", "surrogatepass")).hexdigest()[:16]


def render_keys(o):
    """one pass over all context/mode keys -> [(key, out digest)]"""
    obs = observe.render_all(o)
    return [(k, hashlib.sha1(v.encode("utf-8", "surrogatepass")).hexdigest()[:12]) for k, v in sorted(obs.items()) if not k.startswith("meta:")]


def child_main():
    """run in a subprocess with another PYTHONHASHSEED: print {key: [[c, out], ...]}"""
    tier = sys.argv[2]
    fams, objs, extra = objects(tier)
    res = {}
    for key, fname, sname, lname in objs:
        o = make(fams, fname, sname, lname)
        if o is not None:
            res[key] = render_keys(o)
    for key, mk in extra.items():
        res[key] = render_keys(mk())
    json.dump(res, sys.stdout)


def given_parameterizer(o):
    """renders with a caller-supplied parameterizer: [before, after] value lists (as strings)"""
    from pypika_tortoise.terms import Parameterizer

    out = []
    ctx0 = core.contexts()["postgresql"]
    p = Parameterizer()
    p.values.extend(["pre-existing", 42])
    for _ in range(2):
        before = [repr(v) for v in p.values]
        try:
            o.get_sql(ctx0.copy(parameterizer=p))
        except Exception:  # noqa
            break
        out.append({"before": before, "after": [repr(v) for v in p.values]})
    return out


def run(tier: str) -> int:
    rep = core.Report("C02", tier)
    fams, objs, extra = objects(tier)
    observe.SUBSET = None
    reps = 3
    # other interpreter processes
    seeds = ["1", "2", "3", "random"] if tier == "quick" else ["1", "2", "3", "4", "5", "6", "7", "random", "random"]
    procs = []
    for s in seeds:
        env = dict(os.environ, PYTHONHASHSEED=s, PYTHONPATH=os.environ.get("VERIF_REPO", "/repo") + ":" + core.ROOT)
        procs.append((s, subprocess.Popen([sys.executable, "-m", "harness.c02", "--child", tier], env=env, stdout=subprocess.PIPE, text=True)))
    events, keys, classes = [], [], {}
    footprint = {}
    live, makers = [], {}
    for key, fname, sname, lname in objs:
        o = make(fams, fname, sname, lname)
        if o is not None:
            live.append((key, o))
            makers[key] = (lambda fname=fname, sname=sname, lname=lname: make(fams, fname, sname, lname))
    live += [(k, mk()) for k, mk in extra.items()]
    makers.update(extra)
    sys.setswitchinterval(1e-6)
    for key, o in live:
        pre = sdigest(o)
        attr0 = {a: c01.deep_repr(v) for a, v in vars(o).items()} if hasattr(o, "__dict__") else {}
        attr0.update({"(context object) " + d: r for d, r in ctx_repr().items()})
        renders = []
        shape0, transient = shape(o), []
        PROBE[0] = (lambda o=o, shape0=shape0, transient=transient: transient.append(1) if shape(o) != shape0 else None)
        try:
            first = render_keys(o)
        finally:
            PROBE[0] = None
        for rp in range(reps):
            for c, out in (first if rp == 0 else render_keys(o)):
                renders.append({"c": c, "out": out, "post": pre})
            post = sdigest(o)
            if post != pre:
                # attribute the change to the pass; find the exact context by re-rendering a fresh copy below
                for r in renders[-len(render_keys.__defaults__ or ()) or -1:]:
                    pass
                renders[-1]["post"] = post
                attr1 = {a: c01.deep_repr(v) for a, v in vars(o).items()} if hasattr(o, "__dict__") else {}
                attr1.update({"(context object) " + d: r for d, r in ctx_repr().items()})
                footprint[key] = sorted(a for a in attr1 if attr0.get(a) != attr1[a])
                pre_for_next = post
        # a fresh, equal object per context, rendered under that context only: the interleaved sequence above must give the same
        iso = []
        if tier != "quick" or key.startswith("x.") or ".full" in key or ".upsert" in key or len(events) % 5 == 0:
            for c in sorted({r["c"] for r in renders}):
                out = observe.render_one(makers[key](), c)
                iso.append({"c": c, "out": hashlib.sha1(out.encode("utf-8", "surrogatepass")).hexdigest()[:12]})
        if transient and renders:
            # the object looked different to a probe inside one of its own renders: a write, even if undone afterwards
            renders[0]["post"] = "transient-write"
            footprint.setdefault(key, ["(restored before get_sql returned)"])
        ev = {"tid": len(events), "pre": pre, "renders": renders, "procs": [], "threads": [], "given": given_parameterizer(o), "isolated": iso}
        events.append(ev)
        keys.append(key)
        classes[key] = type(o).__name__
    # concurrent renders of shared objects
    nthreads = 6
    for n, (key, o) in enumerate(live):
        if tier == "quick" and not (key.endswith(".full") or key.endswith(".updjoin") or key.startswith("x.") or n % 40 == 0):
            continue
        res = []
        lock = threading.Lock()

        def work():
            for _ in range(2):
                ks = render_keys(o)
                with lock:
                    res.extend(ks)
        ths = [threading.Thread(target=work) for _ in range(nthreads)]
        [t.start() for t in ths]
        [t.join() for t in ths]
        events[n]["threads"] = [{"c": c, "out": out} for c, out in res]
    sys.setswitchinterval(0.005)
    for s, p in procs:
        data, _ = p.communicate(timeout=900)
        if p.returncode != 0:
            raise core.MachineryError(f"child interpreter with PYTHONHASHSEED={s} failed")
        res = json.loads(data)
        for n, key in enumerate(keys):
            if key in res:
                events[n]["procs"].append({"seed": s, "outs": [{"c": c, "out": out} for c, out in res[key]]})
    # model: the measured write footprint per class -> TLC explores all interleavings of 2 threads x 2 renders
    fps = sorted({tuple(v) for v in footprint.values()} | {()})
    for fp in fps:
        visit = ["_selects", "_from", "_joins", "_wheres"] if not fp else sorted(set(fp) | {"_selects", "_wheres"})
        gen = ("---- MODULE MC_RenderConc ----\nEXTENDS PT_RenderConc\nG_Visit == <<%s>>\n====\n" % ", ".join('"%s"' % a for a in visit))
        cfg = ('CONSTANTS\nThreads = {"t1", "t2"}\nVisit <- G_Visit\nWriteSet = {%s}\nRenders = 2\nINIT Init\nNEXT Next\nINVARIANT Repeatable\nPROPERTY Pure\n'
               % ", ".join('"%s"' % a for a in fp))
        r = tlc.run("MC_RenderConc", cfg, workers=4, timeout=600, extra_files={"MC_RenderConc.tla": gen})
        rep.add_tlc(r)
        if not fp and (r.violation or not r.ok):
            raise core.MachineryError(f"PT_RenderConc violates {r.violation} with an empty write footprint (spec bug)")
        if fp and not r.violation:
            raise core.MachineryError("PT_RenderConc accepts a non-empty write footprint (spec bug)")
        rep.extra.setdefault("model_runs", []).append({"write_footprint": list(fp), "tlc_verdict": r.violation or "holds", "states": r.distinct})
    results = tlc.judge_shards("J_Render", "INIT Init\nNEXT Next\n", events, shard=max(300, len(events) // 16 + 1), heap="3g")
    rep.add_tlc(results)
    if sum(max(r.distinct - 1, 0) for r in results) != len(events):
        raise core.MachineryError("J_Render did not consume every event")
    bad = {}
    for r in results:
        for v in r.json_tagged("V"):
            bad[v["tid"]] = v["bad"]
    rep.traces = len(events)
    rep.evaluations = sum(len(e["renders"]) + sum(len(p["outs"]) for p in e["procs"]) + len(e["threads"]) for e in events)
    rep.distinct = set(keys)
    for tid in sorted(bad):
        key = keys[tid]
        kinds = sorted({b[0] for b in bad[tid]})
        for kind in kinds:
            cs = sorted({b[1] for b in bad[tid] if b[0] == kind})
            detail = footprint.get(key, []) if kind == "impure" else []
            sig = [classes[key], kind] + ([",".join(detail)] if detail else [])
            rep.discrepancy([sig], {"object": key, "class": classes[key], "clause": kind, "contexts": cs[:6], "written_attributes": detail},
                            what={"impure": "rendering writes to the object", "unrepeatable": "a repeated render returns a different result",
                                  "hashseed": "the result depends on PYTHONHASHSEED", "history-dependent": "a render depends on which contexts the object was rendered under before", "threads": "concurrent renders disagree",
                                  "parameterizer": "a caller-supplied parameterizer was not only appended to"}[kind])
    for n in (0, len(events) // 2, len(events) - 1):
        rep.sample({"object": keys[n], "class": classes[keys[n]], "renders": len(events[n]["renders"]), "processes": len(events[n]["procs"]),
                    "thread_results": len(events[n]["threads"]), "verdict": "pure+repeatable" if n not in bad else bad[n][:3]})
    rep.rule = (f"every seed and every one-call successor of the C01 catalogue ({len(live)} renderable objects incl. hash-order probes), each rendered "
                f"{reps}x under 6 contexts x inline/param (+str), in {len(seeds)} other interpreter processes with different PYTHONHASHSEED, "
                f"and from {nthreads} threads; structural digest compared around every pass; distinct = objects")
    rep.assumptions = ["thread schedules and hash seeds are sampled; the all-interleavings argument is on PT_RenderConc given the measured write footprint"]
    return rep.finish()


def replay(path: str) -> int:
    ex = json.load(open(path))["example"]
    print(json.dumps(ex, indent=1))
    return 0


if __name__ == "__main__":
    if len(sys.argv) > 1 and sys.argv[1] == "--child":
        child_main()
