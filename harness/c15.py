"""C15 - copy, deepcopy and pickle round-trips preserve and decouple objects.

Same machinery as C01 (PT_Sharing: Dup actions; J_Frozen: duplicate observed like its original, later calls on either
side leave the other unchanged), restricted to histories that contain a duplication step."""
from harness import c01


def run(tier: str) -> int:
    return c01.run(tier, prop="C15")


def replay(path: str) -> int:
    return c01.replay(path)
