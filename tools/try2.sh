#!/bin/bash
# tools/try2.sh <seeded-id> <Cxx> [tier] - like try.sh but on a scratch worktree of /repo's HEAD (VERIF_REPO), /repo itself is not touched
cd "$(dirname "$0")/.."
WT=$(mktemp -d /tmp/try2-XXXXXX)
git -C /repo worktree add -q --detach "$WT/r" HEAD || exit 2
git -C "$WT/r" apply "$PWD/seeded/$1/patch.diff" || { git -C /repo worktree remove --force "$WT/r"; rm -rf "$WT"; exit 3; }
VERIF_REPO="$WT/r" VERIF_SCRATCH="$WT" VERIF_EVIDENCE_DIR="$WT/evidence" VERIF_REPLAY_DIR="$WT/replays" ./check "$2" --tier "${3:-quick}" 2>&1 | grep -v '^KNOWN' | tail -${TAIL:-1} | cut -c1-${CUT:-300}
git -C /repo worktree remove --force "$WT/r"; rm -rf "$WT"
