#!/bin/sh
# tools/try.sh <seeded-id> <Cxx> [tier]  - apply a seeded change to /repo, run one check (evidence to scratch), undo.
d=/verif/seeded/$1
git -C /repo apply "$d/patch.diff" || exit 2
VERIF_EVIDENCE_DIR=/tmp/try-ev VERIF_REPLAY_DIR=/tmp/try-rp /verif/check "$2" --tier "${3:-quick}" 2>&1 | grep -v '^KNOWN' | tail -${TAIL:-4} | cut -c1-${CUT:-400}
git -C /repo checkout -- .
git -C /repo status --short | head -3
rm -rf /tmp/try-ev
