"""Observation of one live object: its renderings under the six dialect contexts, inline and
parameterised, plus term metadata.  Used as the abstract state of an object in the history checks."""
from __future__ import annotations

import hashlib

from harness import core

_CTX = None


def ctxs():
    global _CTX
    if _CTX is None:
        _CTX = core.contexts()
    return _CTX


SUBSET = None  # None = all six contexts; else a list of context names (quick tier)


def render_all(obj) -> dict:
    from pypika_tortoise.terms import Parameterizer, Term

    out = {}
    for d, ctx in ctxs().items():
        if SUBSET is not None and d not in SUBSET:
            continue
        try:
            out[d] = obj.get_sql(ctx)
        except Exception as ex:  # noqa
            out[d] = "EXC:" + type(ex).__name__
        try:
            p = Parameterizer()
            sql = obj.get_sql(ctx.copy(parameterizer=p))
            out[d + "/param"] = sql + " || " + repr(p.values)
        except Exception as ex:  # noqa
            out[d + "/param"] = "EXC:" + type(ex).__name__
    if callable(getattr(type(obj), "union", None)):   # query builders and set operations
        # a statement is also looked at the way an embedding statement sees it (bracketed, alias printed)
        try:
            out["generic/embedded"] = obj.get_sql(ctxs()["generic"].copy(subquery=True, with_alias=True))
        except Exception as ex:  # noqa
            out["generic/embedded"] = "EXC:" + type(ex).__name__
    if type(obj).__str__ is not object.__str__:
        try:
            out["str"] = str(obj)
        except Exception as ex:  # noqa
            out["str"] = "EXC:" + type(ex).__name__
    if isinstance(obj, Term):
        for name, f in (("alias", lambda: obj.alias), ("is_aggregate", lambda: obj.is_aggregate),
                        ("tables_", lambda: sorted(str(t) for t in obj.tables_)),
                        ("fields_", lambda: sorted(f.get_sql(ctxs()["generic"].copy(with_namespace=True)) for f in obj.fields_()))):
            try:
                out["meta:" + name] = repr(f())
            except Exception as ex:  # noqa
                out["meta:" + name] = "EXC:" + type(ex).__name__
    elif hasattr(obj, "alias"):
        try:
            out["meta:alias"] = repr(obj.__dict__.get("alias"))
        except Exception:  # noqa
            pass
    return out


def render_one(obj, key: str) -> str:
    """the rendering render_all files under `key` (a context name, name/param, or str), and nothing else"""
    from pypika_tortoise.terms import Parameterizer

    if key == "generic/embedded":
        try:
            return obj.get_sql(ctxs()["generic"].copy(subquery=True, with_alias=True))
        except Exception as ex:  # noqa
            return "EXC:" + type(ex).__name__
    if key == "str":
        try:
            return str(obj)
        except Exception as ex:  # noqa
            return "EXC:" + type(ex).__name__
    d, _, mode = key.partition("/")
    ctx = ctxs()[d]
    try:
        if mode == "param":
            p = Parameterizer()
            sql = obj.get_sql(ctx.copy(parameterizer=p))
            return sql + " || " + repr(p.values)
        return obj.get_sql(ctx)
    except Exception as ex:  # noqa
        return "EXC:" + type(ex).__name__


def digest(obs: dict) -> str:
    h = hashlib.sha1()
    for k in sorted(obs):
        h.update(k.encode())
        h.update(b"\0")
        h.update(obs[k].encode("utf-8", "surrogatepass"))
        h.update(b"\1")
    return h.hexdigest()[:16]


def diff(a: dict, b: dict) -> list:
    return sorted(k for k in set(a) | set(b) if a.get(k) != b.get(k))
