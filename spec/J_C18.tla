------------------------------- MODULE J_C18 -------------------------------
(* Judge for C18: decodes the literal the REAL Interval.get_sql emitted and *)
(* compares it with the constructor arguments.                              *)
EXTENDS PT_Interval, Json, IOUtils
Events == ndJsonDeserialize(IOEnv.TRACE_FILE)
VARIABLE i
Init == i = 1
Want(e) == IF e.kind = "ymd" THEN Norm(e.c)
           ELSE [k |-> e.kind, neg |-> e.c[1] < 0, n |-> Abs(e.c[1])]
Verdict(e) ==
    IF e.kind = "ymd" THEN [tid |-> e.tid, disc |-> Disc(e.c, e.chars, e.d)]
    ELSE LET r == Dec(e.chars, e.d) IN
         [tid |-> e.tid,
          disc |-> IF r.ok /\ r.v = Want(e) THEN {}
                   ELSE {<<"single", e.kind, IF r.ok THEN "value" ELSE r.why>>}]
Next == /\ i <= Len(Events)
        /\ LET v == Verdict(Events[i]) IN
              IF v.disc = {} THEN TRUE ELSE PrintT("V " \o ToJson(v))
        /\ i' = i + 1
Spec == Init /\ [][Next]_i
=============================================================================
