"""./check selftest [--tier quick]  -  demonstrates the binding between the recorded traces and the specification (DESIGN.md 4.6).

Not a MANIFEST check.  For every property the quick check is run again in a child process with VERIF_CORRUPT=<n>: the trace
driver (harness.tlc.judge_shards) then damages ONE recorded field in each of the first <n> events handed to the TLC judge
(a token dropped from the recorded SQL, an observation digest altered, a value list shortened, an equality matrix entry
flipped, an exception record blanked ...), exactly as a misplaced hook or a lying recorder would.  The judge must reject the
damaged events: the child has to exit 1 with VIOLATION lines although the same run without damage exits 0.  Evidence and
replays of the children go to a scratch directory; /repo and /verif/evidence are not touched.

The other half of 4.6 - source changes that must be detected - is tools/reseed_all.sh over /verif/seeded/*.
"""
from __future__ import annotations

import json
import os
import shutil
import subprocess
import sys
import tempfile

PROPS = ["C%02d" % k for k in range(1, 19)]


def corrupt(module: str, e: dict) -> dict:
    """damage one recorded (implementation-side) field of event e of the given judge module; returns the damaged copy"""
    e = json.loads(json.dumps(e))
    m = module.replace("Gen", "")

    def drop_mid(xs):
        return xs[: len(xs) // 2] + xs[len(xs) // 2 + 1:] if xs else xs + [{"t": "word", "v": "BOGUS", "q": ""}]
    if m == "J_C03":
        e["explain_equal"], e["rows_equal"] = False, False
    elif m == "J_C04":
        if e["vals"]:
            e["vals"] = e["vals"][:-1]
        else:
            e["param"] = e["param"] + [{"t": "ph", "v": "?"}]
    elif m == "J_C06":
        e["toks"] = [t for t in e["toks"] if t.get("v") not in ("(", ")")] if any(t.get("v") == "(" for t in e["toks"]) else e["toks"][:-1]
    elif m == "J_C08":
        for t in e["r"][0]["toks"]:
            if t["t"] == "id":
                t["q"] = "`" if t["q"] != "`" else '"'
                break
        else:
            e["r"][0]["toks"] = e["r"][0]["toks"] + [{"t": "word", "v": "LIMIT", "q": ""}, {"t": "word", "v": "FETCH", "q": ""}]
    elif m == "J_C09":
        e["tail"] = (e["tail"] or []) + ["LIMIT", "FETCH"]
    elif m == "J_C10":
        e["outer"] = drop_mid(e["outer"])
    elif m == "J_C11":
        e["quals"] = e["quals"] + [["WHERE", "bogus", "a"]]
    elif m == "J_C12":
        e["aliases"] = e["aliases"] + [["WHERE", "ala"]]
    elif m == "J_C13":
        for o in e["orders"]:
            o["clauses"] = list(reversed(o["clauses"])) + o["clauses"][:1] if o["clauses"] else ["WHERE", "SELECT"]
            o["balanced"] = False
    elif m == "J_Ddl":
        for o in e["orders"]:
            o["seq"] = list(reversed(o["seq"])) + o["seq"][:1] if o["seq"] else ["CREATE", "TABLE"]
    elif m == "J_C14":
        e["excs"] = ["" for _ in e["excs"]] if any(e["excs"]) else ["BogusException" for _ in e["excs"]] or ["BogusException"]
        if not e["calls"]:
            e["rexc"] = "BogusException" if not e["rexc"] else ""
    elif m == "J_C18":
        e["chars"] = e["chars"][:-2] + [ord("9")] + e["chars"][-2:]
    elif m == "J_Eq":
        if e["kind"] == "universe":
            e["eq"][0][0] = False
        else:
            e["fields"] = e["fields"] + [["bogus", "zz"]]
    elif m == "J_Frozen":
        if e["steps"]:
            st = e["steps"][-1]
            st["obs"][0] = "0" * len(st["obs"][0]) if st["obs"][0] != "-" else "x"
    elif m == "J_Lit":
        e["chars"] = e["chars"][:-1] if len(e["chars"]) > 1 else e["chars"] + [39]
    elif m == "J_Render":
        if e["renders"]:
            e["renders"][-1]["out"] = "bogus"
    elif m == "J_Replace":
        e["rep"] = drop_mid(e["rep"])
    elif m == "J_Head":
        e["head"] = e["head"] + ["TOP"]
    elif m == "J_Names":
        e["names"] = e["names"] + e["names"][:1] if e["names"] else ["x", "x"]
    elif m == "J_Sel":
        e["items"] = e["items"][:-1] if e["items"] else [["", "zz"]]
    elif m == "J_C12S":
        e["aliases"] = e["aliases"] + [["ORDER BY", "ala"]]
    elif m == "J_Meta":
        if e["kind"] == "agg":
            e["obs"] = {"T": "F", "F": "N", "N": "T"}[e["obs"]]
        elif e["kind"] == "path":
            e["eq"] = not e["eq"]
        else:
            e["st"] = "ok" if e["st"] != "ok" else "E"
    else:
        raise RuntimeError("no corruption rule for " + module)
    return e


def main() -> int:
    here = os.path.dirname(os.path.dirname(os.path.abspath(__file__)))
    props = [p for p in (os.environ.get("VERIF_SELFTEST_PROPS") or " ".join(PROPS + ["X01"])).split() if p]
    scratch = tempfile.mkdtemp(prefix="selftest-")
    bad = 0
    try:
        for p in props:
            env = dict(os.environ, VERIF_CORRUPT="5", VERIF_EVIDENCE_DIR=os.path.join(scratch, "evidence"), VERIF_REPLAY_DIR=os.path.join(scratch, "replays"),
                       VERIF_SCRATCH=scratch)
            r = subprocess.run([os.path.join(here, "check"), p, "--tier", "quick"], env=env, capture_output=True, text=True)
            nviol = sum(1 for l in r.stdout.splitlines() if l.startswith("VIOLATION"))
            # (C01 / C15 cross-check TLC's verdict against the executor's own diff: a damaged digest makes the two disagree, which stops the run)
            cross = r.returncode == 2 and "judge and executor disagree" in r.stderr
            ok = (r.returncode == 1 and nviol > 0) or cross
            how = "rejected (as it must be)" if not cross else "rejected: TLC reports a change the executor did not make (run stopped)"
            print(f"selftest {p}: damaged traces -> exit={r.returncode} violations={nviol}  {how if ok else 'NOT REJECTED'}")
            if not ok:
                bad += 1
                sys.stdout.write(r.stdout[-1500:] + r.stderr[-1500:])
    finally:
        shutil.rmtree(scratch, ignore_errors=True)
    print(f"selftest: {len(props) - bad}/{len(props)} judges rejected the damaged traces")
    return 0 if bad == 0 else 1
