------------------------------- MODULE PT_Ddl -------------------------------
(***************************************************************************)
(* CREATE TABLE builder (property C13, "DDL included"): abstract state,     *)
(* effect of every clause-setting call, completeness and the keyword /      *)
(* name sequence DSeq the rendered statement must show.  The options are    *)
(* independent flags (TEMPORARY takes precedence over UNLOGGED whichever    *)
(* was called first), column / UNIQUE / PERIOD FOR lists accumulate in call *)
(* order, so calls that address different clauses commute by construction.  *)
(***************************************************************************)
EXTENDS Naturals, Sequences, FiniteSets, TLC

DEmpty == [temp |-> FALSE, unlogged |-> FALSE, ine |-> FALSE, sysver |-> FALSE, cols |-> <<>>, uniq |-> <<>>, pk |-> <<>>, period |-> <<>>]
DStep(b, c) ==
    CASE c.m = "temporary" -> [b EXCEPT !.temp = TRUE]
      [] c.m = "unlogged" -> [b EXCEPT !.unlogged = TRUE]
      [] c.m = "if_not_exists" -> [b EXCEPT !.ine = TRUE]
      [] c.m = "with_system_versioning" -> [b EXCEPT !.sysver = TRUE]
      [] c.m = "columns" -> [b EXCEPT !.cols = @ \o c.names]
      [] c.m = "unique" -> [b EXCEPT !.uniq = Append(@, c.names)]
      [] c.m = "primary_key" -> [b EXCEPT !.pk = c.names]
      [] c.m = "period_for" -> [b EXCEPT !.period = Append(@, <<c.name, c.a, c.b>>)]
      [] OTHER -> b
RECURSIVE DFold(_, _)
DFold(b, calls) == IF calls = <<>> THEN b ELSE DFold(DStep(b, Head(calls)), Tail(calls))
DComplete(b) == b.cols # <<>>
RECURSIVE Flat(_)
Flat(ss) == IF ss = <<>> THEN <<>> ELSE Head(ss) \o Flat(Tail(ss))
DSeq(b, table) ==
    IF ~DComplete(b) THEN <<>>
    ELSE <<"CREATE">> \o (IF b.temp THEN <<"TEMPORARY">> ELSE IF b.unlogged THEN <<"UNLOGGED">> ELSE <<>>) \o <<"TABLE">>
         \o (IF b.ine THEN <<"IF", "NOT", "EXISTS">> ELSE <<>>) \o <<table>> \o b.cols
         \o Flat([i \in DOMAIN b.period |-> <<"PERIOD", "FOR">> \o b.period[i]])
         \o Flat([i \in DOMAIN b.uniq |-> <<"UNIQUE">> \o b.uniq[i]])
         \o (IF b.pk # <<>> THEN <<"PRIMARY", "KEY">> \o b.pk ELSE <<>>)
         \o (IF b.sysver THEN <<"WITH", "SYSTEM", "VERSIONING">> ELSE <<>>)
\* the clause a call addresses (calls to one clause accumulate in call order, calls to different clauses commute)
DClauseOf(c) == IF c.m \in {"columns", "unique", "period_for"} THEN c.m ELSE c.m
\* design: any two orders of the same calls that keep the order within each clause fold to the same state
DCommute(c1, c2) == DClauseOf(c1) # DClauseOf(c2) => \A b \in {DEmpty} : DStep(DStep(b, c1), c2) = DStep(DStep(b, c2), c1)
=============================================================================
