#!/bin/bash
# Maintenance: re-try every archived seeded change against the current checks WITHOUT touching /repo:
# a scratch worktree of /repo's HEAD gets the patch, the property's quick check runs on it (VERIF_REPO), the worktree is removed.
# usage: tools/reseed_all.sh [seed-id ...]      (default: all of seeded/*, not _neutralised)
cd "$(dirname "$0")/.."
ids=("$@"); [ ${#ids[@]} -eq 0 ] && ids=($(ls seeded | grep -v '^_'))
WT=$(mktemp -d /tmp/reseed-XXXXXX)
git -C /repo worktree add -q --detach "$WT/r" HEAD || exit 2
mkdir -p "$WT/evidence" "$WT/replays"
miss=0
for id in "${ids[@]}"; do
  prop=$(echo "$id" | sed -E 's/^(R[0-9]-)?(C[0-9]+)-.*/\2/')
  git -C "$WT/r" reset -q --hard HEAD ; git -C "$WT/r" clean -fdq
  if ! git -C "$WT/r" apply "$PWD/seeded/$id/patch.diff" 2>/dev/null; then
    if git -C "$WT/r" apply -3 "$PWD/seeded/$id/patch.diff" >/dev/null 2>&1 && [ -z "$(git -C "$WT/r" diff --name-only --diff-filter=U)" ]; then git -C "$WT/r" reset -q
    else echo "$id: PATCH DOES NOT APPLY to the current tree (site rewritten by a later fix)"; git -C "$WT/r" reset -q --hard HEAD; continue; fi
  fi
  checks=$(python3 -c "import json,sys; m=json.load(open('seeded/$id/meta.json')); print(' '.join(sorted({c.split(':')[0] for c in m.get('checks_run',[]) if ':exit=1' in c}) or ['$prop']))")
  res=""
  for c in $prop $checks; do
    case " $res " in *" $c:"*) continue;; esac
    VERIF_REPO="$WT/r" VERIF_SCRATCH="$WT" VERIF_EVIDENCE_DIR="$WT/evidence" VERIF_REPLAY_DIR="$WT/replays" ./check "$c" --tier quick > "$WT/log" 2>&1; rc=$?
    res="$res $c:exit=$rc"
  done
  case "$res" in *":exit=1"*) echo "$id: detected ($res )";; *) echo "$id: NOT DETECTED ($res )"; miss=$((miss+1));; esac
done
git -C /repo worktree remove --force "$WT/r"; rm -rf "$WT"
echo "missed: $miss"
