import time,sys
from harness import c01, tlc, catalog
fams, scens = c01.scenarios("quick")
sel=[s for s in scens if s[1] in sys.argv[1].split(',')][:int(sys.argv[2])]
meas={sid: c01.measure(fams[f], s) for sid,f,s in sel}
for sid in meas:
    a,r,e=meas[sid]
    print(sid, len(a), r, {l:{x:k for x,k in ee.items() if k!='none'} for l,ee in e.items() if any(k in('inplace','nested') for k in ee.values())})
t=time.time()
r1 = tlc.run("MC_SharingGen", c01.CFG % (2, 3, "", "INVARIANT Emit"), extra_files={"MC_SharingGen.tla": c01.tables_module(sel, meas, False)}, workers=16, heap="8g", timeout=600)
print(r1.ok, r1.distinct, r1.generated, len(r1.lines), time.time()-t)
