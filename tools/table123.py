import json, glob, os, collections, re, sys
root='/verif'
known = collections.Counter(f["property"] for f in json.load(open(root+"/known_findings.json"))["findings"])
thor={}
for f in ('/root/.vp/runs/19/log','/root/.vp/runs/20/log','/root/.vp/runs/21/log','/root/.vp/runs/22/log'):
    if not os.path.exists(f): continue
    for l in open(f):
        m=re.match(r'== (C\d+) exit=0 C\d+ tier=thorough states=(\d+) transitions=\d+ traces=(\d+) known=(\d+) violations=0 wall=([\d.]+)s', l)
        if m: thor[m.group(1)]=(int(m.group(2)),int(m.group(3)),float(m.group(5)))
rows=["| id | quick: TLC states | quick: events judged | quick: wall | thorough: TLC states | thorough: events judged | thorough: wall | known-finding signatures listed |","|---|---|---|---|---|---|---|---|"]
for p in sorted(glob.glob(root+"/evidence/C*.json")):
    e=json.load(open(p)); c=e["coverage"]; i=e["property_id"]
    t=thor.get(i)
    rows.append(f"| {i} | {c.get('states',''):,} | {c.get('traces_validated_against_impl',''):,} | {round(e.get('wall_s',0))} s | " + (f"{t[0]:,} | {t[1]:,} | {round(t[2]/60)} min |" if t else " | | |") + f" {known.get(i,0)} |")
print("\n".join(rows))
