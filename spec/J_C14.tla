-------------------------------- MODULE J_C14 --------------------------------
(* Judge for C14: the exception class (or none) of every call and of the    *)
(* final render must be exactly what the specification's guards say.        *)
EXTENDS PT_Builder, Json, IOUtils
Events == ndJsonDeserialize(IOEnv.TRACE_FILE)
VARIABLE i
Init == i = 1
Kind3(want, got) == IF want = got THEN "" ELSE IF want = "" THEN "false-rejection" ELSE IF got = "" THEN "missed" ELSE "wrong-class"
Verdict(e) ==
    LET wantCalls == IF e.fam = "misc" THEN e.expect.calls ELSE RaiseSeq(Empty, e.calls)
        wantRender == IF e.fam = "misc" THEN e.expect.render ELSE RenderRaises(Fold(Empty, e.calls), e.d)
        n == Len(e.excs)
    IN [tid |-> e.tid,
        bad |-> {<<k, Kind3(wantCalls[k], e.excs[k]), wantCalls[k], e.excs[k]>> : k \in {x \in 1..n : x <= Len(wantCalls) /\ wantCalls[x] # e.excs[x]}}
                \cup (IF Len(wantCalls) # n THEN {<<0, "length", "", "">>} ELSE {})
                \cup (IF e.rendered /\ wantRender # e.rexc THEN {<<n + 1, Kind3(wantRender, e.rexc), wantRender, e.rexc>>} ELSE {})]
Next == /\ i <= Len(Events)
        /\ LET v == Verdict(Events[i]) IN IF v.bad = {} THEN TRUE ELSE PrintT("V " \o ToJson(v))
        /\ i' = i + 1
Spec == Init /\ [][Next]_i
=============================================================================
