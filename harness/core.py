"""Shared plumbing of every check: dialect contexts, evidence files, known
findings, verdict lines (DESIGN.md 4.5 / 5 / 8)."""
from __future__ import annotations

import json
import os
import sys
import time

ROOT = os.path.dirname(os.path.dirname(os.path.abspath(__file__)))
KNOWN_PATH = os.path.join(ROOT, "known_findings.json")
# (the two overrides exist for tools/reseed_all.sh, which must not overwrite the evidence of /repo with that of a seeded change)
EVID_DIR = os.environ.get("VERIF_EVIDENCE_DIR") or os.path.join(ROOT, "evidence")
REPLAY_DIR = os.environ.get("VERIF_REPLAY_DIR") or os.path.join(ROOT, "replays")

DIALECTS = ["generic", "mysql", "postgresql", "sqlite", "mssql", "oracle"]


def query_classes():
    from pypika_tortoise import MSSQLQuery, MySQLQuery, OracleQuery, PostgreSQLQuery, Query, SQLLiteQuery

    return {
        "generic": Query,
        "mysql": MySQLQuery,
        "postgresql": PostgreSQLQuery,
        "sqlite": SQLLiteQuery,
        "mssql": MSSQLQuery,
        "oracle": OracleQuery,
    }


def contexts():
    return {d: c.SQL_CONTEXT for d, c in query_classes().items()}


def wrapper_cls(builder):
    """the value-wrapper class a builder uses for constants (a private attribute of the builder: fall back to the generic wrapper
    if a refactoring renames it - the dialect-specific literal form is then simply not exercised at that position)"""
    from pypika_tortoise.terms import ValueWrapper

    for v in vars(builder).values():     # whatever the attribute is called: the ValueWrapper subclass the builder holds
        if isinstance(v, type) and issubclass(v, ValueWrapper):
            return v
    return ValueWrapper


def empty_builder(Q, **kwargs):
    """an empty builder of Q's dialect class, through the public API (the class of what Q.from_ returns)"""
    return type(Q.from_("t"))(**kwargs)


def lex_dialect(d: str) -> str:
    return "sqlite" if d == "generic" else d


def seed() -> int:
    try:
        return int(os.environ.get("VERIF_SEED", "0"))
    except ValueError:
        return 0


class MachineryError(RuntimeError):
    """The check itself failed (exit 2), as opposed to the property."""


class Known:
    """known_findings.json: {"findings":[{"property","sig","what","example"}], "fixed":[...]}
    Read-only at run time.  A signature is any JSON value; matching is by
    canonical JSON equality."""

    def __init__(self):
        with open(KNOWN_PATH) as fh:
            data = json.load(fh)
        self.by_prop: dict[str, dict[str, dict]] = {}
        for f in data.get("findings", []):
            self.by_prop.setdefault(f["property"], {})[canon(f["sig"])] = f

    def has(self, prop: str, sig) -> bool:
        return canon(sig) in self.by_prop.get(prop, {})

    def get(self, prop: str, sig):
        return self.by_prop.get(prop, {}).get(canon(sig))


def canon(x) -> str:
    return json.dumps(x, sort_keys=True, separators=(",", ":"), ensure_ascii=True)


class Report:
    """Collects what one run of one property check found and produces the
    stdout lines, the replay files, the evidence file and the exit status."""

    def __init__(self, prop: str, tier: str):
        self.prop = prop
        self.tier = tier
        self.t0 = time.time()
        self.known = Known()
        self.reproduced: dict[str, dict] = {}  # canon(sig) -> info (first example)
        self.violations: dict[str, dict] = {}  # canon(sig) -> {sig, example, what}
        self.states = 0
        self.transitions = 0
        self.traces = 0
        self.evaluations = 0
        self.distinct: set = set()
        self.samples: list = []
        self.extra: dict = {}
        self.assumptions: list[str] = []
        self.rule = ""
        self.exhaustive = False
        self.evid_dir = EVID_DIR   # (the behaviours outside the property list write to evidence_extra/)

    # --- statistics ----------------------------------------------------
    def add_tlc(self, res) -> None:
        results = res if isinstance(res, list) else [res]
        for r in results:
            self.states += r.distinct or 0
            self.transitions += r.generated or 0

    def sample(self, x, limit=6) -> None:
        if len(self.samples) < limit:
            self.samples.append(x)

    # --- verdicts --------------------------------------------------------
    def discrepancy(self, sigs, example, what: str = "") -> None:
        """One event whose discrepancy is named by a set of alternative
        signatures: explained if ANY of them is a known finding (the event is
        then attributed to the first known one), otherwise a violation filed
        under the first signature."""
        sigs = list(sigs)
        if not sigs:
            raise MachineryError(f"{self.prop}: discrepancy without signature: {example!r}")
        for s in sigs:
            if self.known.has(self.prop, s):
                c = canon(s)
                if c not in self.reproduced:
                    self.reproduced[c] = {"sig": s, "example": example, "count": 0}
                self.reproduced[c]["count"] += 1
                return
        # an ambiguous event (several alternatives) is attributed to a violation that an
        # unambiguous event of this run has already established, if there is one
        for s in sigs:
            if canon(s) in self.violations and len(sigs) > 1:
                self.violations[canon(s)]["count"] += 1
                return
        # prefer the smallest example per signature
        c = canon(sigs[0])
        cur = self.violations.get(c)
        if cur is None or len(canon(example)) < len(canon(cur["example"])):
            self.violations[c] = {"sig": sigs[0], "all_sigs": sigs, "example": example, "what": what,
                                  "count": (cur or {}).get("count", 0)}
        self.violations[c]["count"] += 1

    def finish(self, level: str = "model_checking") -> int:
        os.makedirs(self.evid_dir, exist_ok=True)
        for c, info in sorted(self.reproduced.items()):
            f = self.known.get(self.prop, info["sig"])
            print(f"KNOWN-FINDING: property={self.prop} sig={c} {f.get('what', '')} (seen {info['count']}x)")
        rc = 0
        # the replay directory of a property holds the replays of its LAST run only (harness.mkknown learns from it)
        import shutil

        shutil.rmtree(os.path.join(REPLAY_DIR, self.prop), ignore_errors=True)
        if self.violations:
            rc = 1
            d = os.path.join(REPLAY_DIR, self.prop)
            os.makedirs(d, exist_ok=True)
            for k, (c, v) in enumerate(sorted(self.violations.items())):
                import hashlib

                path = os.path.join(d, hashlib.sha1(c.encode()).hexdigest()[:12] + ".json")
                with open(path, "w") as fh:
                    json.dump({"property": self.prop, "sig": v["sig"], "all_sigs": v.get("all_sigs"),
                               "what": v["what"], "example": v["example"], "count": v["count"]}, fh, indent=1)
                print(f"VIOLATION property={self.prop} replay={path}")
                print(f"  signature={c} what={v['what']} example={canon(v['example'])[:600]}")
        cov = {
            "states": max(self.states, 0),
            "transitions": max(self.transitions, 0),
            "traces_validated_against_impl": self.traces,
            "samples": self.samples or ["(none)"],
            "evaluations": max(self.evaluations, 1),
            "distinct_nontrivial": max(len(self.distinct), 0),
            "rule": self.rule,
            "exhaustive": self.exhaustive,
            "known_findings_reproduced": sorted(self.reproduced.keys()),
            "violating_signatures": sorted(self.violations.keys()),
        }
        cov.update(self.extra)
        for key in ("programs", "obligations", "discharged", "disagreements_checked"):   # integer-typed keys of the evidence schema
            if key in cov and not isinstance(cov[key], int):
                raise MachineryError(f"evidence key {key} must be an integer")
        ev = {
            "property_id": self.prop,
            "tier": self.tier,
            "seed": seed(),
            "level": level,
            "coverage": cov,
            "assumptions": self.assumptions,
            "wall_s": round(time.time() - self.t0, 2),
            "violations": len(self.violations),
        }
        with open(os.path.join(self.evid_dir, self.prop + ".json"), "w") as fh:
            json.dump(ev, fh, indent=1, default=str)
        print(f"{self.prop} tier={self.tier} states={self.states} transitions={self.transitions} "
              f"traces={self.traces} known={len(self.reproduced)} violations={len(self.violations)} "
              f"wall={ev['wall_s']}s")
        sys.stdout.flush()
        return rc
