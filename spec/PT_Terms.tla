------------------------------ MODULE PT_Terms ------------------------------
(***************************************************************************)
(* Term algebra operators shared by several properties: sources of fields,  *)
(* the INTENDED replace_table (recursive over every sub-term), and its      *)
(* design-level guarantee ReplaceComplete (C16).  Trees have the PT_Expr    *)
(* shape with `src` on fields.                                              *)
(***************************************************************************)
EXTENDS PT_Eq

RECURSIVE Replace(_, _, _), ReplaceSeq(_, _, _)
ReplaceSeq(s, old, new) == [i \in DOMAIN s |-> Replace(s[i], old, new)]
Replace(t, old, new) ==
    CASE t.k = "fld" -> IF t.src = old THEN [t EXCEPT !.src = new] ELSE t
      [] t.k = "bin" -> [t EXCEPT !.l = Replace(t.l, old, new), !.r = Replace(t.r, old, new)]
      [] t.k \in {"neg", "not", "isnull"} -> [t EXCEPT !.a = Replace(t.a, old, new)]
      [] t.k = "in" -> [t EXCEPT !.a = Replace(t.a, old, new), !.items = ReplaceSeq(t.items, old, new)]
      [] t.k = "between" -> [t EXCEPT !.a = Replace(t.a, old, new), !.lo = Replace(t.lo, old, new), !.hi = Replace(t.hi, old, new)]
      [] t.k = "call" -> [t EXCEPT !.args = ReplaceSeq(t.args, old, new)]
      [] t.k = "case" -> [t EXCEPT !.w = Replace(t.w, old, new), !.t = Replace(t.t, old, new), !.e = Replace(t.e, old, new)]
      [] OTHER -> t

\* every reference to old has become a reference to new, nothing else moved
ReplaceComplete(t, old, new) ==
    LET r == Replace(t, old, new) IN
    /\ old \notin TablesOf(r) \/ old = new
    /\ FieldsOf(r) = {IF f[1] = old THEN <<new, f[2]>> ELSE f : f \in FieldsOf(t)}
    /\ Replace(r, new, new) = r
=============================================================================
