------------------------------ MODULE PT_Meta ------------------------------
(***************************************************************************)
(* Behaviour outside the listed properties (DESIGN.md section 7).           *)
(*                                                                          *)
(* 1. is_aggregate: a three-valued vote ("T", "F", "N" = abstains) resolved *)
(*    over the operands of a composite term.  IsAgg is what the library     *)
(*    DOES (deviations from the intended reading are named):                *)
(*      DevFieldVotesFalse   a plain column votes "F" (Term's class         *)
(*                           default), so SUM(x) + y is "F" - intended -    *)
(*                           but so is a bare column                         *)
(*      DevUnaryVotesFalse   NOT c and c IS NULL do not look at their       *)
(*                           operand: always "F"                            *)
(*      DevWindowVotesFalse  an analytic (window) function votes "F"        *)
(*    IsAggIntended looks through unary nodes; the two agree on every tree  *)
(*    without NOT / IS NULL (AggAgree).                                     *)
(* 2. EmptyCriterion is a LEFT identity of AND / OR only:                   *)
(*      Criterion.all / any fold  crit := crit OP term  from EmptyCriterion *)
(*      E OP c = c, but c OP E builds a criterion that cannot be rendered   *)
(*    FoldCrit gives the outcome of the fold as the library computes it.    *)
(* 3. immutable = False: a builder call is the effect WITHOUT the copy step *)
(*    of PT_Sharing!Call - the receiver itself is returned (Mutable mode is *)
(*    stated in harness/x01.py against PT_Builder!Fold: same final state).  *)
(***************************************************************************)
EXTENDS Integers, Sequences, FiniteSets, TLC

Votes == {"T", "F", "N"}
Resolve(vs) == LET s == {vs[i] : i \in DOMAIN vs} \ {"N"} IN IF s = {} THEN "N" ELSE IF s = {"T"} THEN "T" ELSE "F"
\* Python's  a or b  on votes (None and False are falsy)
Or3(a, b) == IF a = "T" THEN "T" ELSE b

AggFns == {"SUM", "MAX", "COUNT", "MIN", "AVG"}
RECURSIVE IsAgg(_), IsAggIntended(_), HasKind(_, _), HasAggCall(_)
MapSeq(s, Op(_)) == [i \in DOMAIN s |-> Op(s[i])]
IsAgg(t) ==
    CASE t.k = "fld" -> "F"
      [] t.k \in {"num", "str"} -> "N"
      [] t.k = "bin" -> Resolve(<<IsAgg(t.l), IsAgg(t.r)>>)
      [] t.k = "neg" -> IsAgg(t.a)
      [] t.k \in {"not", "isnull"} -> "F"
      [] t.k \in {"in", "between"} -> IsAgg(t.a)
      [] t.k = "call" -> IF t.f \in AggFns THEN "T" ELSE Resolve(MapSeq(t.args, IsAgg))
      [] t.k = "win" -> "F"
      [] t.k = "case" -> Resolve(<<Or3(IsAgg(t.w), IsAgg(t.t)), IsAgg(t.e)>>)
      [] OTHER -> "N"
IsAggIntended(t) ==
    CASE t.k = "fld" -> "F"
      [] t.k \in {"num", "str"} -> "N"
      [] t.k = "bin" -> Resolve(<<IsAggIntended(t.l), IsAggIntended(t.r)>>)
      [] t.k \in {"neg", "not", "isnull", "in", "between"} -> IsAggIntended(t.a)
      [] t.k = "call" -> IF t.f \in AggFns THEN "T" ELSE Resolve(MapSeq(t.args, IsAggIntended))
      [] t.k = "win" -> "F"
      [] t.k = "case" -> Resolve(<<Or3(IsAggIntended(t.w), IsAggIntended(t.t)), IsAggIntended(t.e)>>)
      [] OTHER -> "N"
Kids(t) == CASE t.k = "bin" -> <<t.l, t.r>>
             [] t.k \in {"neg", "not", "isnull"} -> <<t.a>>
             [] t.k = "in" -> <<t.a>> \o t.items
             [] t.k = "between" -> <<t.a, t.lo, t.hi>>
             [] t.k = "call" -> t.args
             [] t.k = "case" -> <<t.w, t.t, t.e>>
             [] OTHER -> <<>>
HasKind(t, ks) == t.k \in ks \/ \E i \in DOMAIN Kids(t) : HasKind(Kids(t)[i], ks)
HasAggCall(t) == (t.k = "call" /\ t.f \in AggFns) \/ \E i \in DOMAIN Kids(t) : HasAggCall(Kids(t)[i])

\* laws of the vote
ResolveLaws == /\ \A a, b \in Votes : Resolve(<<a, b>>) = Resolve(<<b, a>>)
               /\ \A a \in Votes : Resolve(<<a, a>>) = a /\ Resolve(<<a, "N">>) = a
               /\ \A a, b, c \in Votes : Resolve(<<Resolve(<<a, b>>), c>>) = Resolve(<<a, b, c>>)
AggSound(t) == IsAgg(t) = "T" => HasAggCall(t)
AggAgree(t) == ~HasKind(t, {"not", "isnull"}) => IsAgg(t) = IsAggIntended(t)

\* ---- EmptyCriterion folds: parts is a Seq over {"E"} \cup criterion ids; outcome of crit := crit OP part from E
RECURSIVE FoldFrom(_, _, _)
FoldFrom(parts, i, acc) ==   \* acc = [st |-> "E" | "ok" | "unrenderable", ids |-> Seq of criterion ids]
    IF i > Len(parts) THEN acc
    ELSE IF acc.st = "E" THEN FoldFrom(parts, i + 1, IF parts[i] = "E" THEN acc ELSE [st |-> "ok", ids |-> <<parts[i]>>])
    ELSE IF acc.st = "unrenderable" \/ parts[i] = "E" THEN FoldFrom(parts, i + 1, [st |-> "unrenderable", ids |-> <<>>])
    ELSE FoldFrom(parts, i + 1, [st |-> "ok", ids |-> Append(acc.ids, parts[i])])
FoldCrit(parts) == FoldFrom(parts, 1, [st |-> "E", ids |-> <<>>])
\* the intended algebra (identity on both sides): the non-empty parts in order
FoldIntended(parts) == LET ne == SelectSeq(parts, LAMBDA p : p # "E") IN IF ne = <<>> THEN [st |-> "E", ids |-> <<>>] ELSE [st |-> "ok", ids |-> ne]
\* CustomFunction(name, params)(*args): declared = "none" (no parameter list given) or the number of declared parameters, given = the number
\* of arguments of the call (both as strings "0".."4").  With a parameter list the call is accepted exactly when the numbers agree and the
\* function carries the arguments; WITHOUT one every call is accepted and its arguments are DROPPED (named deviation DevNoParamsDropsArgs:
\* F = CustomFunction("F"); F(x) renders F()).
CustomCall(declared, given) ==
    IF declared = "none" THEN [st |-> "ok", ids |-> <<"0">>]
    ELSE IF declared = given THEN [st |-> "ok", ids |-> <<given>>]
    ELSE [st |-> "FunctionException", ids |-> <<>>]
\* what a caller may rely on: an accepted call of a function WITH a parameter list carries exactly the declared number of arguments
ArityExact(declared, given) == LET r == CustomCall(declared, given) IN (declared # "none" /\ r.st = "ok") => r.ids = <<declared>>

\* ---- window frames (WindowFrameAnalyticFunction.rows / .range).  A bound is <<"C">> (CURRENT ROW) or <<"P" | "F", n>> (n PRECEDING /
\* FOLLOWING, n = -1: UNBOUNDED; 0 is "0 PRECEDING", not UNBOUNDED); a frame is [unit |-> "ROWS" | "RANGE", lo |-> bound, hi |-> bound | <<>>].
\* WindowCall(hasOver, hasOrd, frames): the outcome of  fn(x) [.over(p)] [.orderby(o)] .rows/.range(frames[1]) .rows/.range(frames[2]) ...
\* as the word / number tokens that follow the function's own brackets.  What the library does, with its deviations named:
\*   DevFrameNeedsOver      - without over() / orderby() the frame (and the whole OVER clause) is dropped silently;
\*   DevSecondFrameAttrErr  - a second rows / range call raises the builtin AttributeError, not a library exception;
\*   DevFrameOrderUnchecked - bounds are not ordered: ROWS BETWEEN UNBOUNDED FOLLOWING AND UNBOUNDED PRECEDING is accepted (FrameLegal says
\*                            which frames standard SQL accepts).
BoundToks(b) == IF b = <<"C">> THEN <<"CURRENT", "ROW">>
                ELSE <<IF b[2] < 0 THEN "UNBOUNDED" ELSE ToString(b[2]), IF b[1] = "P" THEN "PRECEDING" ELSE "FOLLOWING">>
FrameToks(f) == IF f.hi = <<>> THEN <<f.unit>> \o BoundToks(f.lo) ELSE <<f.unit, "BETWEEN">> \o BoundToks(f.lo) \o <<"AND">> \o BoundToks(f.hi)
WindowCall(hasOver, hasOrd, frames) ==
    IF Len(frames) > 1 THEN [st |-> "AttributeError", ids |-> <<>>]
    ELSE IF ~(hasOver \/ hasOrd) THEN [st |-> "ok", ids |-> <<>>]
    ELSE [st |-> "ok", ids |-> <<"OVER">> \o (IF hasOver THEN <<"PARTITION", "BY">> ELSE <<>>) \o (IF hasOrd THEN <<"ORDER", "BY">> ELSE <<>>)
                               \o (IF frames = <<>> THEN <<>> ELSE FrameToks(frames[1]))]
\* the frame grammar of standard SQL, over tokens:  unit ( bound | BETWEEN bound AND bound ),  bound = CURRENT ROW | (UNBOUNDED | n) (PRECEDING | FOLLOWING)
IsBoundToks(ts) == Len(ts) = 2 /\ (ts = <<"CURRENT", "ROW">> \/ (ts[2] \in {"PRECEDING", "FOLLOWING"} /\ ts[1] \notin {"CURRENT", "BETWEEN", "AND", "ROWS", "RANGE"}))
IsFrameToks(ts) == /\ Len(ts) \in {3, 7} /\ ts[1] \in {"ROWS", "RANGE"}
                   /\ IF Len(ts) = 3 THEN IsBoundToks(SubSeq(ts, 2, 3))
                      ELSE ts[2] = "BETWEEN" /\ IsBoundToks(SubSeq(ts, 3, 4)) /\ ts[5] = "AND" /\ IsBoundToks(SubSeq(ts, 6, 7))
\* rank of a bound on the row axis: UNBOUNDED PRECEDING < n PRECEDING < CURRENT ROW < n FOLLOWING < UNBOUNDED FOLLOWING
BoundRank(b) == IF b = <<"C">> THEN 0 ELSE IF b[1] = "P" THEN (IF b[2] < 0 THEN -1000 ELSE -b[2]) ELSE (IF b[2] < 0 THEN 1000 ELSE b[2])
FrameLegal(f) == /\ f.lo # <<"F", -1>>
                 /\ IF f.hi = <<>> THEN BoundRank(f.lo) <= 0 ELSE f.hi # <<"P", -1>> /\ BoundRank(f.lo) <= BoundRank(f.hi)
\* what a caller may rely on: an accepted call with a window (over / orderby) carries the one frame it was given, in the grammar, after the
\* PARTITION BY / ORDER BY heads, and nothing else; no frame, no frame tokens
FrameCarried(hasOver, hasOrd, frames) ==
    LET r == WindowCall(hasOver, hasOrd, frames)
        heads == 1 + (IF hasOver THEN 2 ELSE 0) + (IF hasOrd THEN 2 ELSE 0)
    IN (r.st = "ok" /\ (hasOver \/ hasOrd)) =>
          /\ r.ids[1] = "OVER"
          /\ IF frames = <<>> THEN Len(r.ids) = heads
             ELSE IsFrameToks(SubSeq(r.ids, heads + 1, Len(r.ids))) /\ SubSeq(r.ids, heads + 1, Len(r.ids)) = FrameToks(frames[1])
\* ... and never a frame without the OVER that gives it a meaning
NoBareFrame(hasOver, hasOrd, frames) == LET r == WindowCall(hasOver, hasOrd, frames) IN
    (\E k \in DOMAIN r.ids : r.ids[k] \in {"ROWS", "RANGE"}) => r.ids[1] = "OVER"

\* ---- GROUP BY modifiers: groupby / rollup / rollup(vendor="mysql") / with_totals as actions on the grouping state
\*   s = [items |-> Seq([r |-> BOOLEAN, cols |-> Seq(STRING)]), my |-> BOOLEAN, tot |-> BOOLEAN, st |-> "ok" | exception name]
\*   call = [m |-> "groupby" | "rollup" | "rollupM" | "totals", cols |-> Seq(STRING)]
\* What the library does, deviations named:
\*   DevRollupAfterMysqlAttrErr - any rollup after a MySQL roll-up raises the builtin AttributeError;
\*   DevRollupMerges            - a generic rollup directly after a generic rollup extends that ROLLUP(..) instead of opening a second one
\*                                (a groupby in between ends the run);
\*   DevEmptyRollup             - rollup() without terms is accepted and renders ROLLUP();
\*   DevTotalsNeedsGroup        - with_totals() without any group is dropped silently;  WITH TOTALS precedes WITH ROLLUP when both are set.
GroupInit == [items |-> <<>>, my |-> FALSE, tot |-> FALSE, st |-> "ok"]
PlainItems(cols) == [i \in 1..Len(cols) |-> [r |-> FALSE, cols |-> <<cols[i]>>]]
GroupStep(s, c) ==
    IF s.st # "ok" THEN s
    ELSE IF c.m = "groupby" THEN [s EXCEPT !.items = s.items \o PlainItems(c.cols)]
    ELSE IF c.m = "totals" THEN [s EXCEPT !.tot = TRUE]
    ELSE IF s.my THEN [s EXCEPT !.st = "AttributeError"]
    ELSE IF c.m = "rollupM" THEN (IF c.cols = <<>> /\ s.items = <<>> THEN [s EXCEPT !.st = "RollupException"]
                                  ELSE [s EXCEPT !.my = TRUE, !.items = s.items \o PlainItems(c.cols)])
    ELSE IF s.items # <<>> /\ s.items[Len(s.items)].r
         THEN [s EXCEPT !.items[Len(s.items)] = [r |-> TRUE, cols |-> s.items[Len(s.items)].cols \o c.cols]]
         ELSE [s EXCEPT !.items = Append(s.items, [r |-> TRUE, cols |-> c.cols])]
RECURSIVE GroupFold(_, _, _)
GroupFold(s, hist, i) == IF i > Len(hist) THEN s ELSE GroupFold(GroupStep(s, hist[i]), hist, i + 1)
RECURSIVE CommaJoin(_, _)
CommaJoin(seqs, i) == IF i > Len(seqs) THEN <<>> ELSE (IF i > 1 THEN <<",">> ELSE <<>>) \o seqs[i] \o CommaJoin(seqs, i + 1)
ItemToks(it) == IF it.r THEN <<"ROLLUP", "(">> \o CommaJoin([k \in 1..Len(it.cols) |-> <<it.cols[k]>>], 1) \o <<")">> ELSE it.cols
GroupRender(s) == IF s.items = <<>> THEN <<>>
                  ELSE <<"GROUP", "BY">> \o CommaJoin([k \in 1..Len(s.items) |-> ItemToks(s.items[k])], 1)
                       \o (IF s.tot THEN <<"WITH", "TOTALS">> ELSE <<>>) \o (IF s.my THEN <<"WITH", "ROLLUP">> ELSE <<>>)
GroupOutcome(hist) == LET s == GroupFold(GroupInit, hist, 1) IN [st |-> s.st, ids |-> IF s.st = "ok" THEN GroupRender(s) ELSE <<>>]
\* what a caller may rely on.  No column is lost, duplicated or reordered: the columns of the clause are those of the calls, in call order
GroupKeywords == {"GROUP", "BY", "ROLLUP", "(", ")", ",", "WITH", "TOTALS"}
RECURSIVE CallCols(_, _)
CallCols(hist, i) == IF i > Len(hist) THEN <<>> ELSE hist[i].cols \o CallCols(hist, i + 1)
NoColumnLost(hist) == LET o == GroupOutcome(hist) IN o.st = "ok" /\ o.ids # <<>> => SelectSeq(o.ids, LAMBDA x : x \notin GroupKeywords) = CallCols(hist, 1)
\* modifiers come after every grouping item, each at most once; WITH ROLLUP exactly when an accepted MySQL roll-up happened
ModifiersLast(hist) == LET o == GroupOutcome(hist)
                           withs == {k \in DOMAIN o.ids : o.ids[k] = "WITH"} IN
    o.st = "ok" => /\ Cardinality(withs) <= 2
                   /\ \A k \in withs : \A j \in k..Len(o.ids) : o.ids[j] \in {"WITH", "TOTALS", "ROLLUP"}
                   /\ (o.ids # <<>> => ((\E k \in withs : o.ids[k + 1] = "ROLLUP") <=> (\E i \in DOMAIN hist : hist[i].m = "rollupM")))
\* brackets balance and every ROLLUP( opens one
BracketsOK(hist) == LET o == GroupOutcome(hist) IN
    /\ Cardinality({k \in DOMAIN o.ids : o.ids[k] = "("}) = Cardinality({k \in DOMAIN o.ids : o.ids[k] = ")"})
    /\ \A k \in DOMAIN o.ids : (o.ids[k] = "ROLLUP" /\ k > 1 /\ o.ids[k - 1] # "WITH") => o.ids[k + 1] = "("

\* ---- naming a table by a path.  names = <<table>> | <<schema, table>> | <<database, schema, table>>; route = how the caller spelt it:
\*   "kw_obj"    Table(t, schema=Schema(s, parent=Schema(d)))      "kw_str"   Table(t, schema="s")            (two names only)
\*   "kw_list"   Table(t, schema=[d, s])   "kw_tuple"  (d, s)      "attr"     Schema(s).t / Database(d).s.t   (two / three names)
\*   "make"      make_tables(t, schema=..)[0]                      "make_al"  make_tables((t, alias), schema=..)[0]
\* One abstract path whatever the route: the FROM clause names exactly the path, outermost first, then the alias if one was given; a name
\* is one identifier even when it contains a dot; and the table equals (and hashes like) the one built by the "kw_obj" route.
RouteApplies(route, n) == CASE route = "kw_str" -> n = 2
                            [] route \in {"kw_list", "kw_tuple", "attr"} -> n \in {2, 3}
                            [] OTHER -> n \in {1, 2, 3}
TablePath(route, names, alias) == [ids |-> names \o (IF alias = "" THEN <<>> ELSE <<alias>>), eq |-> TRUE]
PathOK(route, names, alias) == LET r == TablePath(route, names, alias) IN
    RouteApplies(route, Len(names)) => /\ SubSeq(r.ids, 1, Len(names)) = names
                                        /\ Len(r.ids) = Len(names) + (IF alias = "" THEN 0 ELSE 1)

\* ---- MySQL LOAD DATA: a two-slot builder.  hist = Seq([m |-> "load" | "into", v |-> name]); each call overwrites its slot (the last one
\* wins); the statement exists only when both slots are filled - an incomplete builder renders the EMPTY string instead of raising (named
\* deviation DevIncompleteLoadRendersEmpty; an empty file name counts as "no file").
RECURSIVE LastOf(_, _, _)
LastOf(hist, m, i) == IF i = 0 THEN "" ELSE IF hist[i].m = m THEN hist[i].v ELSE LastOf(hist, m, i - 1)
LoadOutcome(hist) == LET f == LastOf(hist, "load", Len(hist))  t == LastOf(hist, "into", Len(hist)) IN
    IF f = "" \/ t = "" THEN <<>> ELSE <<"LOAD", "DATA", "LOCAL", "INFILE", f, "INTO", "TABLE", t, "FIELDS", "TERMINATED", "BY", ",">>
\* what a caller may rely on: complete or nothing, exactly one file and one table - those of the last calls - whatever the order of the calls
LoadSane(hist) == LET o == LoadOutcome(hist) IN
    /\ (o # <<>>) <=> ((\E i \in DOMAIN hist : hist[i].m = "load" /\ LastOf(hist, "load", Len(hist)) # "") /\ (\E i \in DOMAIN hist : hist[i].m = "into"))
    /\ o # <<>> => /\ Len(o) = 12 /\ o[5] = LastOf(hist, "load", Len(hist)) /\ o[8] = LastOf(hist, "into", Len(hist))

\* The render paths of one statement - str(), repr(), get_sql() without a context, get_sql(the context of its query class) - are one
\* action: they yield one text (outs = the texts, in that order).
PathsAgree(outs) == \A i, j \in DOMAIN outs : outs[i] = outs[j]

LeftIdentityOnly(parts) == (FoldCrit(parts).st # "unrenderable") => FoldCrit(parts) = FoldIntended(parts)
=============================================================================
