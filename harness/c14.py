"""C14 - invalid constructions are rejected with library exceptions; valid ones never are.

spec:  PT_Builder!Raises / RenderRaises (guards as functions of the abstract state), MC_C14 (program families; GuardsExact on the design)
judge: J_C14 (exception class of every call and of the final render vs the specification, both directions)
"""
from __future__ import annotations

import json

from harness import core, execb, tlc

CFG = "CONSTANTS\nFam = \"%s\"\nMaxSeq = %d\nSrcTab <- G_SrcTab\nINIT Init\nNEXT Next\nINVARIANT Emit\nINVARIANT GuardsExact\n"


def gen_module():
    return "---- MODULE MC_C14Gen ----\nEXTENDS MC_C14\n" + execb.srctab_tla() + "====\n"


def judge_module():
    return "---- MODULE J_C14Gen ----\nEXTENDS J_C14\n" + execb.srctab_tla() + "====\n"


def exc_name(f):
    try:
        f()
        return ""
    except Exception as ex:  # noqa
        return type(ex).__name__


def run_misc(p):
    """-> (excs per call, render exception)"""
    import pypika_tortoise as P
    from pypika_tortoise import functions as fn
    from pypika_tortoise.queries import CreateQueryBuilder, DropQueryBuilder

    t1, t2 = P.Table("t1"), P.Table("t2")
    fam = p["fam"]
    if fam == "setop":
        def q(n, t):
            return P.Query.from_(t).select(*[t.field("c%d" % i) for i in range(n)])
        a, b, c = p["n"]
        so = q(a, t1).union(q(b, t2))
        if c:
            so = so.union_all(q(c, P.Table("t3")))
        return [], exc_name(lambda: str(so))
    if fam == "case":
        cs = P.Case()
        for i in range(p["whens"]):
            cs = cs.when(t1.a == i, i)
        if p["els"]:
            cs = cs.else_(9)
        return [], exc_name(lambda: cs.get_sql(P.Query.SQL_CONTEXT))
    if fam == "returning":
        PG = P.PostgreSQLQuery
        kind, what = p["kind"], p["what"]
        joined = what in ("joined", "joined-star") and kind in ("update", "delete")
        if kind == "select":
            q = PG.from_(t1).select(t1.a)
        elif kind == "insert":
            q = PG.into(t1).insert(1)
        elif kind == "update":
            q = PG.update(t1)
            if joined:
                q = q.join(t2).on(t1.a == t2.a)
            q = q.set(t1.a, 1)
        else:
            q = PG.from_(t1)
            if joined:
                q = q.join(t2).on(t1.a == t2.a)
            q = q.delete()
        arg = {"own": t1.b, "foreign": P.Table("t9").b, "str": "b", "star": "*", "const": 1, "agg": fn.Sum(t1.a),
               "joined": t2.b if joined else t1.b,
               "own-star": t1.star, "foreign-star": P.Table("t9").star, "joined-star": t2.star if joined else t1.star,
               "own-expr": t1.b + 1, "foreign-expr": P.Table("t9").b + 1, "mixed-expr": t1.b + P.Table("t9").b,
               "own-case": P.Case().when(t1.b == 1, t1.a).else_(0), "foreign-case": P.Case().when(t1.b == 1, P.Table("t9").a).else_(0),
               "own-func": fn.Lower(t1.b), "foreign-func": fn.Lower(P.Table("t9").b), "foreign-func-nested": fn.Coalesce(fn.Upper(P.Table("t9").b), t1.a),
               "own-tuple": P.Tuple(t1.a, t1.b), "foreign-tuple": P.Tuple(t1.a, P.Table("t9").b)}[what]
        joined = (what in ("joined", "joined-star")) and kind in ("update", "delete")
        holder = {}

        def call():
            holder["q"] = q.returning(arg)
        e = exc_name(call)
        r = exc_name(lambda: str(holder["q"])) if "q" in holder else ""
        return [e], r
    if fam == "ddl":
        cb, db = CreateQueryBuilder(), DropQueryBuilder()
        excs = []
        for c in p["calls"]:
            try:
                if c == "create_table":
                    cb = cb.create_table("ct")
                elif c == "columns":
                    cb = cb.columns("a")
                elif c == "as_select":
                    cb = cb.as_select(P.Query.from_(t1).select(t1.a))
                elif c == "primary_key":
                    cb = cb.primary_key("a")
                elif c == "unique":
                    cb = cb.unique("a")
                elif c == "drop_table":
                    db = db.drop_table("dt")
                elif c == "if_exists":
                    db = db.if_exists()
                excs.append("")
            except Exception as ex:  # noqa
                excs.append(type(ex).__name__)
        r = exc_name(lambda: (str(cb), str(db)))
        return excs, r
    if fam == "temporal":
        t = P.Table("tt")
        excs = []
        for c in p["calls"]:
            try:
                t = t.for_(P.SYSTEM_TIME.as_of("2020-01-01")) if c == "for_" else t.for_portion(P.SYSTEM_TIME.from_to("2020-01-01", "2020-02-01"))
                excs.append("")
            except Exception as ex:  # noqa
                excs.append(type(ex).__name__)
        return excs, exc_name(lambda: str(t))
    if fam == "rollup":
        q = P.Query.from_(t1).select(t1.a, fn.Count("*"))
        excs = []
        for k, c in enumerate(p["calls"]):
            try:
                f = t1.field("g%d" % k)
                q = q.groupby(f) if c == "groupby" else q.rollup(f) if c == "rollup" else q.rollup(f, vendor="mysql") if c == "rollup_mysql" else q.rollup(vendor="mysql")
                excs.append("")
            except Exception as ex:  # noqa
                excs.append(type(ex).__name__)
        return excs, exc_name(lambda: str(q))
    raise core.MachineryError("misc family " + fam)


def run(tier: str) -> int:
    rep = core.Report("C14", tier)
    events, meta = [], []
    qc = core.query_classes()
    dialects = {"join": ["generic", "postgresql"], "oc": ["generic", "postgresql", "sqlite", "mysql"], "oneshot": ["generic", "mssql"]}
    if tier != "quick":
        # thorough: conflict-handler and statement-kind sequences one call longer, every family under every dialect class
        dialects = {"join": list(qc), "oc": list(qc), "oneshot": list(qc)}
    for fam in ("join", "oc", "oneshot", "misc"):
        r = tlc.run("MC_C14Gen", CFG % (fam, 3 if tier == "quick" else 4), workers=16, heap="6g", extra_files={"MC_C14Gen.tla": gen_module()}, timeout=1500)
        rep.add_tlc(r)
        if r.violation or not r.ok:
            raise core.MachineryError(f"MC_C14 {fam}: {r.violation}\n{r.raw_tail[-1500:]}")
        progs = r.json_tagged("P")
        if not progs:
            raise core.MachineryError("generator produced no program")
        rep.extra.setdefault("programs_by_family", {})[fam] = len(progs)
        for p in progs:
            if fam == "misc":
                excs, rexc = run_misc(p["prog"])
                events.append({"tid": len(events), "fam": "misc", "d": "generic", "expect": p["expect"], "calls": [], "excs": excs,
                               "rendered": True, "rexc": rexc})
                meta.append((fam, "generic", p["prog"]))
                continue
            for d in dialects[fam]:
                # second pass: the same chain executed inside a branching history (sibling continuations are derived from
                # every intermediate builder and discarded) - the guard outcomes are a function of the chain alone
                for decoys in ((False, True) if d == dialects[fam][0] else (False,)):
                    env = execb.Env(qc[d])
                    q, excs = env.run(p["calls"], decoys=decoys)
                    for eff in env.rejected_effects:
                        rep.discrepancy([["rejected-call-changed-argument", eff["call"]["m"], eff["error"]]],
                                        {"dialect": d, "program": p["calls"], "rejected_call": eff["call"], "sources_whose_alias_changed": eff["changed"]},
                                        what="a call that was refused with an exception changed the alias of a table passed to it")
                    if decoys:
                        env.decoys(q)
                    rexc = ""
                    try:
                        str(q)
                    except Exception as ex:  # noqa
                        rexc = type(ex).__name__
                    events.append({"tid": len(events), "fam": fam, "d": d, "calls": p["calls"], "excs": excs, "rendered": True, "rexc": rexc,
                                   "expect": {"calls": [], "render": ""}})
                    meta.append((fam + ("+siblings" if decoys else ""), d, p["calls"]))
    results = tlc.judge_shards("J_C14Gen", "CONSTANT SrcTab <- G_SrcTab\nINIT Init\nNEXT Next\n", events, shard=max(500, len(events) // 16 + 1),
                               heap="3g", extra_files={"J_C14Gen.tla": judge_module()})
    rep.add_tlc(results)
    if sum(max(x.distinct - 1, 0) for x in results) != len(events):
        raise core.MachineryError("J_C14 did not consume every event")
    rep.traces = len(events)
    rep.evaluations = len(events)
    rep.distinct = {(m[0], json.dumps(m[2], sort_keys=True)) for m in meta}
    for res in results:
        for v in res.json_tagged("V"):
            fam, d, prog = meta[v["tid"]]
            sib = fam.endswith("+siblings")
            fam = fam.replace("+siblings", "")
            for step, kind, want, got in sorted(v["bad"]):
                rep.discrepancy([signature(fam, prog, step, kind, want, got) + (["with-sibling-continuations"] if sib else [])],
                                {"family": fam, "dialect": d, "program": prog, "step": step, "expected": want or "no exception", "observed": got or "no exception"},
                                what=f"guard {kind}: expected {want or 'no exception'}, observed {got or 'no exception'}")
    for k in (0, len(meta) // 2, len(meta) - 1):
        rep.sample({"family": meta[k][0], "dialect": meta[k][1], "program": meta[k][2], "excs": events[k]["excs"], "render": events[k]["rexc"]})
    rep.rule = ("TLC enumerates: join programs (4 base shapes x with/without CTE x with/without prior join x 7 joined items x 225 criteria over 10 source "
                "shapes in both operand orders), all orders of <=3 conflict-handler calls, all <=3-call sequences of statement-kind switches, and the "
                "set-operation arity / CASE / RETURNING / DDL / temporal / rollup families; executed on the real library; TLC compares every call's and the "
                "final render's exception class with PT_Builder!Raises / RenderRaises")
    rep.exhaustive = True
    return rep.finish()


def signature(fam, prog, step, kind, want, got):
    if fam == "misc":
        p = prog
        if p["fam"] == "returning":
            return ["returning", p["kind"], p["what"], kind]
        if p["fam"] in ("ddl", "temporal", "rollup"):
            call = p["calls"][step - 1] if 0 < step <= len(p["calls"]) else "render"
            return [p["fam"], call, kind, want or got]
        return [p["fam"], kind, want or got]
    if fam == "join":
        c = prog[-1]
        srcs = sorted({f for f in _srcs(c.get("crit"))})
        base = prog[0]["src"]
        return ["join", kind, "item=" + c["item"], "base=" + base, "crit=" + ",".join(srcs)] if step == len(prog) else ["join", "setup", kind, want or got]
    call = prog[step - 1]["m"] if 0 < step <= len(prog) else "render"
    prior = "+".join(c["m"] for c in prog[:step - 1][2 if fam == "oc" else 0:]) if step > 0 else ""
    return [fam, call, kind, want or got, "after=" + prior]


def _srcs(t):
    if not isinstance(t, dict):
        return
    if t.get("k") == "fld":
        yield t.get("src", "")
    for v in t.values():
        if isinstance(v, dict):
            yield from _srcs(v)
        elif isinstance(v, list):
            for x in v:
                yield from _srcs(x)


def replay(path: str) -> int:
    ex = json.load(open(path))["example"]
    print(json.dumps(ex, indent=1))
    return 0
