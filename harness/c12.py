"""C12 - aliases are emitted exactly once, where they define a name, for every term kind.

spec:  PT_Builder!AliasSeq (select items print their alias; GROUP BY / ORDER BY refer to an alias only if the select list defines it and the
       dialect allows it), MC_C12 (term class x position product; RefAliasOnce on the reference)
judge: J_C12 (alias projection of the real token stream vs AliasSeq)
"""
from __future__ import annotations

import json

from harness import core, execb, lexer, proj, tlc
from harness.c11 import gen


def term_classes_uncovered():
    """Term subclasses of the live module that the generator's kinds do not reach (reported in the evidence)"""
    import pypika_tortoise.terms as T
    import pypika_tortoise.functions, pypika_tortoise.analytics, pypika_tortoise.queries  # noqa

    def subs(c):
        out = set()
        for s in c.__subclasses__():
            out.add(s)
            out |= subs(s)
        return out
    env = execb.Env(core.query_classes()["generic"])
    built = set()
    for k, f in execb.EXT.items():
        built.add(type(f(env)))
    for t in [{"k": "fld", "src": "T1", "n": "a"}, {"k": "num", "n": "1"}, {"k": "bin", "op": "+", "l": {"k": "num", "n": "1"}, "r": {"k": "num", "n": "1"}},
              {"k": "bin", "op": "=", "l": {"k": "num", "n": "1"}, "r": {"k": "num", "n": "1"}},
              {"k": "bin", "op": "AND", "l": {"k": "fld", "src": "T1", "n": "a"}, "r": {"k": "fld", "src": "T1", "n": "a"}},
              {"k": "neg", "a": {"k": "num", "n": "1"}}, {"k": "not", "a": {"k": "num", "n": "1"}}, {"k": "isnull", "a": {"k": "num", "n": "1"}},
              {"k": "in", "a": {"k": "num", "n": "1"}, "items": [{"k": "num", "n": "1"}]},
              {"k": "between", "a": {"k": "num", "n": "1"}, "lo": {"k": "num", "n": "1"}, "hi": {"k": "num", "n": "1"}},
              {"k": "call", "f": "UPPER", "args": [{"k": "num", "n": "1"}]}, {"k": "call", "f": "SUM", "args": [{"k": "num", "n": "1"}]},
              {"k": "case", "w": {"k": "num", "n": "1"}, "t": {"k": "num", "n": "1"}, "e": {"k": "num", "n": "1"}}]:
        built.add(type(env.term(t)))
    covered = set()
    for c in built:
        covered |= set(c.__mro__)
    return sorted(c.__name__ for c in subs(T.Term) if c not in covered and not any(issubclass(b, c) for b in built))


def render(env, Q, q, wrap, arity=1):
    P = env.P
    if wrap == "top":
        return str(q)
    if wrap == "param":
        return q.get_parameterized_sql()[0]
    if wrap == "subq-from":
        return str(Q.from_(q.as_("alz")).select("*"))
    if wrap == "subq-in":
        t3 = P.Table("t3")
        return str(Q.from_(t3).select(t3.k).where(t3.k.isin(q)))
    if wrap == "cte":
        return str(Q.with_(q, "alz").from_(P.AliasedQuery("alz")).select("*"))
    if wrap == "union-left":
        t3 = P.Table("t3")
        return str(q.union(Q.from_(t3).select(*[t3.k] * max(1, arity))))
    raise core.MachineryError(wrap)


def setop_orderby(rep, hs, tier):
    """set operations: first UNION later ORDER BY ords (PT_Builder!SetopAliasSeq, judge J_C12S).  The aliased term of every class stands in
    the first operand's select list, only in a later operand's, or in both, and the set operation is ordered by it."""
    terms = [(h["cls"], h["hist"][1]["terms"][0]) for h in hs if h["pos"] == "select-item"]
    other = {"k": "fld", "src": "T1", "n": "c", "al": "alx"}
    plain = {"k": "fld", "src": "T1", "n": "a"}
    shapes = {"setop-orderby-first": lambda t: ([plain, t], [plain, other], [t]),
              "setop-orderby-later": lambda t: ([plain, other], [plain, t], [t]),
              "setop-orderby-both": lambda t: ([t, other], [t, plain], [other, t])}
    events, meta = [], []
    for d, Q in core.query_classes().items():
        ld = core.lex_dialect(d)
        for cls, t in terms:
            if cls == "Subquery":
                continue
            for sname, mk in shapes.items():
                for op in (("union",) if tier == "quick" else ("union", "intersect", "union_all")):
                    first, later, ords = mk(t)
                    env = execb.Env(Q)
                    T1 = env.src["T1"]
                    exc, text = "", ""
                    try:
                        q1 = Q.from_(T1).select(*[env.term(x) for x in first])
                        q2 = Q.from_(T1).select(*[env.term(x) for x in later])
                        text = str(getattr(q1, op)(q2).orderby(*[env.term(x) for x in ords]))
                    except Exception as ex:  # noqa
                        exc = type(ex).__name__
                    toks = lexer.lex(text, ld)
                    # operands: the bracketed SELECTs, or (no wrapping: MySQL) the stretches between the set-operation words; tail: after the last ORDER BY at depth 0
                    words = [k for k, tk in enumerate(toks) if tk["t"] == "word" and tk["d"] == 0 and tk["v"] in ("UNION", "INTERSECT", "EXCEPT", "MINUS")]
                    ob = [k for k, tk in enumerate(toks) if tk["t"] == "word" and tk["d"] == 0 and tk["v"] == "ORDER" and (not words or k > words[-1])]
                    tail = toks[ob[-1]:] if ob else []
                    body = toks[:ob[-1]] if ob else toks
                    ops = proj.nested_selects(body) if body and body[0]["v"] == "(" else ([body[:words[0]], body[words[-1] + 1:]] if words else [body])
                    al = [x for o in ops for x in proj.alias_seq(o) if x[0] == "SELECT"] + \
                         [["ORDER BY", tk["v"]] for k, tk in enumerate(tail) if tk["t"] == "id" and tk["v"] in proj.ALIASES and not (k + 1 < len(tail) and tail[k + 1]["v"] == ".")]
                    if not exc and len(ops) != 2:
                        raise core.MachineryError(f"set operation not split into two operands: {text}")
                    events.append({"tid": len(events), "d": d, "first": first, "later": later, "ords": ords, "exc": exc, "aliases": al})
                    meta.append((d, {"cls": cls, "pos": sname, "op": op}, text))
    results = tlc.judge_shards("J_C12SGen", "CONSTANT SrcTab <- G_SrcTab\nINIT Init\nNEXT Next\n", events, shard=max(300, len(events) // 8 + 1),
                               heap="3g", extra_files={"J_C12SGen.tla": gen("J_C12S")}, timeout=1500)
    rep.add_tlc(results)
    if sum(max(x.distinct - 1, 0) for x in results) != len(events):
        raise core.MachineryError("J_C12S did not consume every event")
    for res in results:
        for v in res.json_tagged("V"):
            d, h, text = meta[v["tid"]]
            for fault, clause, alias in sorted(v["bad"]):
                rep.discrepancy([[h["cls"], h["pos"], fault, clause, "any-dialect"]],
                                {"dialect": d, "class": h["cls"], "position": h["pos"], "operation": h["op"], "sql": text, "expected": v["want"], "observed": events[v["tid"]]["aliases"]},
                                what=f"alias {fault} in {clause or 'statement'} of a set operation")
    return events, meta


def run(tier: str) -> int:
    rep = core.Report("C12", tier)
    execb.Env(core.query_classes()["generic"])
    ext = sorted(execb.EXT)
    cfg = "CONSTANTS\nExtClasses = {%s}\nSrcTab <- G_SrcTab\nINIT Init\nNEXT Next\nINVARIANT Emit\nINVARIANT RefAliasOnce\n" % ", ".join('"%s"' % c for c in ext)
    r = tlc.run("MC_C12Gen", cfg, workers=8, heap="4g", extra_files={"MC_C12Gen.tla": gen("MC_C12")}, timeout=1200)
    rep.add_tlc(r)
    if r.violation or not r.ok:
        raise core.MachineryError(f"MC_C12: {r.violation}\n{r.raw_tail[-1500:]}")
    hs = r.json_tagged("H")
    events, meta = [], []
    wraps = ["top"] if tier == "quick" else ["top", "param", "subq-from", "subq-in", "cte", "union-left"]
    outer_bad = []
    for d, Q in core.query_classes().items():
        ld = core.lex_dialect(d)
        sib = ("generic", "mssql") if tier == "quick" else tuple(core.DIALECTS)
        for h in hs + ([dict(x, siblings=True) for x in hs] if d in sib else []):
          for wrap in wraps:
            if wrap != "top" and (h.get("siblings") or h["hist"][0]["m"] != "from_"):
                continue
            env = execb.Env(Q)
            try:
                # second pass: the same chain inside a branching history - sibling continuations are derived from
                # every intermediate builder and discarded; what they select or group by must not show up here
                q, excs = env.run(h["hist"], decoys=bool(h.get("siblings")))
            except core.MachineryError:
                raise
            exc, text = next((e for e in excs if e), ""), ""
            if exc and h["cls"] == "Subquery":
                continue  # a query is not an arithmetic operand (q + 1 builds a UNION): positions that cannot hold a subquery are skipped
            if exc and wrap != "top":
                continue
            if not exc:
                try:
                    text = render(env, Q, q, wrap, sum(len(c["terms"]) for c in h["hist"] if c["m"] == "select"))
                except Exception as ex:  # noqa
                    exc = type(ex).__name__
                    if h["cls"] == "Subquery":
                        continue  # (subquery == 1 is Python equality of builders, subquery + 1 a set operation: not operand positions)
            toks = lexer.lex(text, ld)
            if wrap not in ("top", "param") and not exc:
                # the statement is embedded (FROM / IN subquery, CTE, set-operation operand): its own alias projection must be what it
                # is on its own; the embedding statement adds only the subquery's alias
                inner = proj.nested_selects(toks)
                if wrap == "union-left" and toks and toks[0]["v"] != "(":
                    cut = next((k for k, t in enumerate(toks) if t["t"] == "word" and t["v"] == "UNION" and t["d"] == 0), None)
                    inner = [toks[:cut]] if cut else []
                if not inner:
                    raise core.MachineryError(f"no nested SELECT in the {wrap} embedding: {text}")
                if wrap == "subq-from" and [x for x in proj.alias_seq(toks) if x != ["FROM", "alz"]]:
                    outer_bad.append((d, h, wrap, text, proj.alias_seq(toks)))
                toks = inner[0]
            events.append({"tid": len(events), "d": d, "hist": h["hist"], "exc": exc, "aliases": proj.alias_seq(toks)})
            meta.append((d, dict(h, wrap=wrap) if wrap != "top" else h, text))
    results = tlc.judge_shards("J_C12Gen", "CONSTANT SrcTab <- G_SrcTab\nINIT Init\nNEXT Next\n", events, shard=max(300, len(events) // 16 + 1),
                               heap="3g", extra_files={"J_C12Gen.tla": gen("J_C12")}, timeout=1500)
    rep.add_tlc(results)
    if sum(max(x.distinct - 1, 0) for x in results) != len(events):
        raise core.MachineryError("J_C12 did not consume every event")
    sevents, smeta = setop_orderby(rep, hs, tier)
    rep.traces = len(events) + len(sevents)
    rep.evaluations = rep.traces
    rep.distinct = {(m[1]["cls"], m[1]["pos"]) for m in meta + smeta}
    rep.extra["set_operation_orderby_programs"] = len(sevents)
    rep.extra["term_classes_not_reached"] = term_classes_uncovered()
    for res in results:
        for v in res.json_tagged("V"):
            d, h, text = meta[v["tid"]]
            dk = "no-groupby-alias" if d in ("mssql", "oracle") else "groupby-alias"
            for fault, clause, alias in sorted(v["bad"]):
                base = [h["cls"], h["pos"], fault, clause, dk if "groupby" in h["pos"] else "any-dialect"]
                sigs = [base]
                if h.get("siblings"):
                    sigs.append(base + ["with-sibling-continuations"])
                if h.get("wrap"):
                    sigs.append(base + ["embedded:" + h["wrap"]])
                rep.discrepancy(sigs, {"dialect": d, "class": h["cls"], "position": h["pos"], "embedding": h.get("wrap", "top"), "sql": text, "expected": v["want"],
                                       "observed": events[v["tid"]]["aliases"]},
                                what=f"alias {fault} in {clause or 'statement'}")
    for d, h, wrap, text, got in outer_bad:
        rep.discrepancy([[h["cls"], h["pos"], "outer-statement", wrap]], {"dialect": d, "class": h["cls"], "position": h["pos"], "sql": text, "outer_aliases": got},
                        what="the embedding statement prints an alias of the embedded one")
    for k in (0, len(meta) // 2, len(meta) - 1):
        rep.sample({"dialect": meta[k][0], "class": meta[k][1]["cls"], "position": meta[k][1]["pos"], "sql": meta[k][2], "aliases": events[k]["aliases"]})
    rep.rule = (f"{len(hs)} programs = (14 PT_Expr term kinds + {len(ext)} further Term classes built by name, each with a unique alias) x 18 positions (defining, every operand "
                "slot, clause operands, GROUP BY / ORDER BY by alias or expression) x 6 dialects; TLC folds the calls and compares the alias projection with AliasSeq"
                + ("" if tier == "quick" else "; thorough: every SELECT program also rendered parameterised and embedded as FROM subquery, IN subquery, CTE and left UNION operand "
                   "(the embedded statement's own projection is judged; the embedding statement may add only the subquery alias), sibling pass in all six dialects"))
    rep.exhaustive = True
    return rep.finish()


def replay(path: str) -> int:
    print(json.dumps(json.load(open(path))["example"], indent=1))
    return 0
