------------------------------ MODULE J_Render ------------------------------
(* Trace judge for C02.  One event per object:                              *)
(*   [tid, pre, renders, procs, threads]                                    *)
(*   pre     : structural digest of the object graph before any render      *)
(*   renders : Seq of [c, out, post]   c = context/mode key, out = digest   *)
(*             of (sql, values), post = structural digest after the render  *)
(*   procs   : Seq of [seed, outs]  outs : Seq of [c, out] from another     *)
(*             interpreter process started with that PYTHONHASHSEED         *)
(*   threads : Seq of [c, out]      results of concurrent renders           *)
(*   given   : Seq of [before, after, sql]: renders with a caller-supplied  *)
(*             parameterizer: its value list may only be appended to        *)
(*   isolated: Seq of [c, out]      a FRESH, equal object rendered under    *)
(*             context c only: what the context gives when nothing was      *)
(*             rendered before it                                           *)
(* Every render event must be the spec action Render: UNCHANGED store, and  *)
(* output a function of (object, context).                                  *)
EXTENDS Naturals, Sequences, FiniteSets, TLC, Json, IOUtils
Events == ndJsonDeserialize(IOEnv.TRACE_FILE)
VARIABLE i
Init == i = 1
First(rs, c) == LET I == {k \in DOMAIN rs : rs[k].c = c} IN rs[CHOOSE k \in I : \A j \in I : k <= j].out
Known(rs, c) == \E k \in DOMAIN rs : rs[k].c = c
IsPrefix(a, b) == Len(a) <= Len(b) /\ SubSeq(b, 1, Len(a)) = a
Bad(e) ==
       {<<"impure", e.renders[k].c>> : k \in {x \in DOMAIN e.renders : e.renders[x].post # e.pre}}
  \cup {<<"unrepeatable", e.renders[k].c>> : k \in {x \in DOMAIN e.renders : e.renders[x].out # First(e.renders, e.renders[x].c)}}
  \cup UNION {{<<"hashseed", e.procs[p].outs[k].c>> :
                  k \in {x \in DOMAIN e.procs[p].outs : Known(e.renders, e.procs[p].outs[x].c)
                                                        /\ e.procs[p].outs[x].out # First(e.renders, e.procs[p].outs[x].c)}}
              : p \in DOMAIN e.procs}
  \cup {<<"threads", e.threads[k].c>> : k \in {x \in DOMAIN e.threads : e.threads[x].out # First(e.renders, e.threads[x].c)}}
  \cup {<<"history-dependent", e.isolated[k].c>> : k \in {x \in DOMAIN e.isolated : Known(e.renders, e.isolated[x].c)
                                                                                  /\ e.isolated[x].out # First(e.renders, e.isolated[x].c)}}
  \cup {<<"parameterizer", "given">> : k \in {x \in DOMAIN e.given : ~IsPrefix(e.given[x].before, e.given[x].after)}}
Next == /\ i <= Len(Events)
        /\ LET b == Bad(Events[i]) IN IF b = {} THEN TRUE ELSE PrintT("V " \o ToJson([tid |-> Events[i].tid, bad |-> b]))
        /\ i' = i + 1
Spec == Init /\ [][Next]_i
=============================================================================
