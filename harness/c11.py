"""C11 - column references are qualified exactly when needed and always by the right name.

spec:  PT_Builder (NeedsNS, QualOf, QualSeq per statement kind and dialect; name positions always bare), MC_C11 (generator; RefQualified on the reference)
judge: J_C11 (qualifier projection of the real token stream vs QualSeq of the folded state)
"""
from __future__ import annotations

import json

from harness import core, execb, lexer, proj, tlc


def gen(name, body=""):
    return f"---- MODULE {name}Gen ----\nEXTENDS {name}\n" + execb.srctab_tla() + body + "====\n"


def run(tier: str) -> int:
    rep = core.Report("C11", tier)
    r = tlc.run("MC_C11Gen", f"CONSTANTS\nMaxClauses = {2 if tier == 'quick' else 3}\nSrcTab <- G_SrcTab\nINIT Init\nNEXT Next\nINVARIANT Emit\nINVARIANT RefQualified\n",
                workers=16, heap="8g", extra_files={"MC_C11Gen.tla": gen("MC_C11")}, timeout=3000)
    rep.add_tlc(r)
    if r.violation or not r.ok:
        raise core.MachineryError(f"MC_C11: {r.violation}\n{r.raw_tail[-1500:]}")
    hs = r.json_tagged("H")
    seen, progs = set(), []
    for h in hs:
        k = json.dumps(h["hist"], sort_keys=True)
        if k not in seen:
            seen.add(k)
            progs.append(h)
    events, meta = [], []
    qc = core.query_classes()
    for d, Q in qc.items():
        ld = core.lex_dialect(d)
        for h in progs + ([dict(x, siblings=True) for x in progs[::7]] if d == "generic" else []):
            if d != "postgresql" and any(c["m"] == "returning" for c in h["hist"]):
                continue
            env = execb.Env(Q)
            # (a sample of the programs is also run inside a branching history: sibling continuations derived and discarded)
            q, excs = env.run(h["hist"], decoys=bool(h.get("siblings")))
            exc, text = next((e for e in excs if e), ""), ""
            if exc:
                continue  # a call of the history was rejected (guards are C14's): no statement to look at
            if not exc:
                try:
                    text = str(q)
                except Exception as ex:  # noqa
                    exc = type(ex).__name__
            toks = lexer.lex(text, ld)
            events.append({"tid": len(events), "d": d, "hist": h["hist"], "exc": exc, "quals": proj.qual_seq(toks)})
            meta.append((d, h, text))
    results = tlc.judge_shards("J_C11Gen", "CONSTANT SrcTab <- G_SrcTab\nINIT Init\nNEXT Next\n", events, shard=max(500, len(events) // 16 + 1),
                               heap="3g", extra_files={"J_C11Gen.tla": gen("J_C11")}, timeout=3000)
    rep.add_tlc(results)
    if sum(max(x.distinct - 1, 0) for x in results) != len(events):
        raise core.MachineryError("J_C11 did not consume every event")
    rep.traces = len(events)
    rep.evaluations = len(events)
    rep.distinct = {json.dumps(m[1]["hist"], sort_keys=True) for m in meta}
    bad = []
    for res in results:
        bad += res.json_tagged("V")
    for v in sorted(bad, key=lambda v: len(meta[v["tid"]][1]["hist"])):
        d, h, text = meta[v["tid"]]
        shape = own_shape(h["hist"])
        for clause, fault, col in sorted(v["bad"]):
            rep.discrepancy([[d, h["kind"], clause, shape, fault]] + ([[d, h["kind"], clause, shape, fault, "with-sibling-continuations"]] if h.get("siblings") else []),
                            {"dialect": d, "kind": h["kind"], "calls": h["hist"], "sql": text, "expected": v["want"], "observed": events[v["tid"]]["quals"]},
                            what=f"{clause}: qualifier {fault}")
    for k in (0, len(meta) // 2, len(meta) - 1):
        rep.sample({"dialect": meta[k][0], "kind": meta[k][1]["kind"], "calls": meta[k][1]["hist"], "sql": meta[k][2], "quals": events[k]["quals"]})
    rep.rule = ("TLC grows statements: 5 kinds x 5 base source shapes (plain, aliased, schema, subquery, CTE reference) x 8 second-source shapes (none, second FROM, "
                "join on/using/cross, aliased copy of the same table, subquery) x up to N clause calls holding a field of an in-scope or foreign source "
                "(select, where, group by, having, order by, set value/target, insert columns, on conflict); each is executed under the six dialect classes; "
                "TLC folds the calls through PT_Builder and compares the (clause, qualifier, column) projection of the real tokens with QualSeq")
    rep.exhaustive = True
    return rep.finish()


def own_shape(hist):
    """shape class of the statement's own (first) source and whether further sources exist"""
    kind = {"T1": "plain", "A3": "aliased", "S4": "schema", "Q6": "subquery", "C7": "cte", "T5": "plain"}
    first = next(c for c in hist if c["m"] in ("from_", "update", "into"))
    more = any(c["m"] == "join" or (c["m"] == "from_" and c is not first) for c in hist)
    return kind.get(first["src"], first["src"]) + ("+more" if more else "")


def source_shape(hist):
    parts = []
    for c in hist:
        if c["m"] in ("from_", "update", "into"):
            parts.append(c["m"] + ":" + c["src"])
        elif c["m"] == "join":
            parts.append("join-" + c["kind"] + ":" + c["item"])
    return "+".join(parts)


def replay(path: str) -> int:
    print(json.dumps(json.load(open(path))["example"], indent=1))
    return 0
