------------------------------- MODULE MC_C14 -------------------------------
(* Generator for C14: programs whose every call has a specified guard       *)
(* outcome.  Families: join (availability of criterion sources), oc (order  *)
(* of conflict-handler calls), oneshot (statement-kind switches), misc      *)
(* (set-operation arity, CASE, RETURNING, DDL and table one-shots).         *)
EXTENDS PT_Builder, Json
CONSTANTS Fam, MaxSeq

Fld(s, c) == [k |-> "fld", src |-> s, n |-> c]
Cmp(l, r) == [k |-> "bin", op |-> "=", l |-> l, r |-> r]
Num(n) == [k |-> "num", n |-> n]
CritSrcs == {"T1", "T2", "T5", "A3", "S4", "T1b", "T1f", "A1", "Q6", "C7", "D1", "D2", "U8"}
Crits == {Cmp(Fld(x, "a"), Fld(y, "b")) : x, y \in CritSrcs}
         \cup {Cmp([k |-> "call", f |-> "UPPER", args |-> <<Fld(x, "a")>>], Fld(y, "b")) : x, y \in {"T1", "T2", "A3", "S4", "T1b", "A1", "Q6", "C7", "U8"}}
         \* a column written WITHOUT a table (it names no source, so it can name no unavailable one)
         \cup {Cmp(Fld("", "a"), Fld(y, "b")) : y \in {"T1", "T2", "T5", "A3"}} \cup {Cmp(Fld("", "a"), Num("1")), Cmp(Fld("T2", "a"), Fld("", "b"))}
         \* subqueries without an alias: the joined one, and a stranger that is no source of the statement
         \cup {Cmp(Fld(x, "a"), Fld(y, "b")) : x, y \in {"T1", "Q9", "Q10"}}
         \cup {[k |-> "bin", op |-> "AND", l |-> Cmp(Fld(x, "a"), Num("1")), r |-> Cmp(Fld(y, "b"), Num("2"))] : x, y \in {"T1", "T2", "A3", "T1f", "C7"}}
         \* the SAME column name on both sides (references that differ in nothing but their table)
         \cup {Cmp(Fld(x, "a"), Fld(y, "a")) : x, y \in {"D1", "D2", "T1", "T1b", "A1", "S4", "T5"}}
Items == {"T2", "T5", "A3", "A1", "T1b", "Q6", "C7", "D1", "U8", "Q9"}
Bases == {"T1", "A3", "S4", "T1f", "U8"}
J(item, crit) == [m |-> "join", item |-> item, how |-> "", kind |-> "on", crit |-> crit, cols |-> <<>>]

Prior(f) == {<<>>, <<J("T2", Cmp(Fld("T2", "a"), Fld(f, "a")))>>}
Withs == {<<>>, <<[m |-> "with_", name |-> "c7"]>>}

OcCalls == { [m |-> "on_conflict", names |-> <<"a">>], [m |-> "on_conflict", names |-> <<>>], [m |-> "do_nothing"],
             [m |-> "do_update", col |-> "b", val |-> Num("1")], [m |-> "where", crit |-> Cmp(Fld("T1", "a"), Num("1"))] }
OcBase == << [m |-> "into", src |-> "T1"], [m |-> "insert", row |-> <<Num("1"), Num("2")>>] >>
\* the same handlers on an INSERT .. SELECT
OcBaseSel == << [m |-> "into", src |-> "T1"], [m |-> "from_", src |-> "T2"], [m |-> "select", terms |-> <<Fld("T2", "a"), Fld("T2", "b")>>] >>


ShotCalls == { [m |-> "into", src |-> "T1"], [m |-> "into", src |-> "T2"], [m |-> "update", src |-> "T1"], [m |-> "delete"],
               [m |-> "select", terms |-> <<Fld("T1", "a")>>], [m |-> "from_", src |-> "T1"], [m |-> "columns", names |-> <<"a">>],
               [m |-> "insert", row |-> <<Num("1")>>], [m |-> "set", col |-> "a", val |-> Num("1")], [m |-> "selectstr", name |-> "a"],
               [m |-> "on_conflict", names |-> <<"a">>] }


\* symbolic programs of the families outside the query-builder state: [fam, ...] with the expected outcome computed here
Misc ==
       { [fam |-> "setop", n |-> <<a, b2, c>>] : a \in 1..3, b2 \in 1..3, c \in 0..3 }
  \cup { [fam |-> "case", whens |-> w, els |-> e] : w \in 0..2, e \in BOOLEAN }
  \cup { [fam |-> "returning", kind |-> k, what |-> x] : k \in {"select", "insert", "update", "delete"},
                                                       x \in {"own", "foreign", "str", "star", "const", "agg", "joined",
                                                             "own-star", "foreign-star", "joined-star", "own-expr", "foreign-expr", "own-case", "foreign-case", "mixed-expr",
                                                             "foreign-func", "foreign-func-nested", "own-tuple", "foreign-tuple"} }
  \cup { [fam |-> "ddl", calls |-> s] : s \in UNION {[1..n -> {"create_table", "columns", "as_select", "primary_key", "unique", "drop_table", "if_exists"}] : n \in 1..3} }
  \cup { [fam |-> "temporal", calls |-> s] : s \in UNION {[1..n -> {"for_", "for_portion"}] : n \in 1..2} }
  \cup { [fam |-> "rollup", calls |-> s] : s \in UNION {[1..n -> {"groupby", "rollup", "rollup_mysql", "rollup_mysql_empty"}] : n \in 1..3} }

\* expected outcome of a misc program: sequence of exception classes per call, then the render exception
RECURSIVE DdlWalk(_, _, _)
\* st = [created, cols, assel, pk, dropped]
DdlWalk(calls, i, st) ==
    IF i > Len(calls) THEN <<>>
    ELSE LET c == calls[i]
             exc == CASE c = "create_table" -> IF st.created THEN "AttributeError" ELSE ""
                      [] c = "columns" -> IF st.assel THEN "AttributeError" ELSE ""
                      [] c = "as_select" -> IF st.cols THEN "AttributeError" ELSE ""
                      [] c = "primary_key" -> IF st.pk THEN "AttributeError" ELSE ""
                      [] c = "drop_table" -> IF st.dropped THEN "AttributeError" ELSE ""
                      [] OTHER -> ""
             st2 == IF exc # "" THEN st
                    ELSE CASE c = "create_table" -> [st EXCEPT !.created = TRUE]
                           [] c = "columns" -> [st EXCEPT !.cols = TRUE]
                           [] c = "as_select" -> [st EXCEPT !.assel = TRUE]
                           [] c = "primary_key" -> [st EXCEPT !.pk = TRUE]
                           [] c = "drop_table" -> [st EXCEPT !.dropped = TRUE]
                           [] OTHER -> st
         IN <<exc>> \o DdlWalk(calls, i + 1, st2)
RECURSIVE TempWalk(_, _, _)
TempWalk(calls, i, set) == IF i > Len(calls) THEN <<>>
                           ELSE <<IF set THEN "AttributeError" ELSE "">> \o TempWalk(calls, i + 1, TRUE)
RECURSIVE RollWalk(_, _, _, _)
RollWalk(calls, i, grouped, my) ==
    IF i > Len(calls) THEN <<>>
    ELSE LET c == calls[i]
             exc == IF c \in {"rollup", "rollup_mysql", "rollup_mysql_empty"} /\ my THEN "AttributeError"
                    ELSE IF c = "rollup_mysql_empty" /\ ~grouped THEN "RollupException" ELSE ""
         IN <<exc>> \o RollWalk(calls, i + 1, grouped \/ (exc = "" /\ c \in {"groupby", "rollup", "rollup_mysql"}),
                                my \/ (exc = "" /\ c \in {"rollup_mysql", "rollup_mysql_empty"}))

MiscExpect(p) ==
    CASE p.fam = "setop" -> [calls |-> <<>>, render |-> IF p.n[2] # p.n[1] \/ (p.n[3] # 0 /\ p.n[3] # p.n[1]) THEN "SetOperationException" ELSE ""]
      [] p.fam = "case" -> [calls |-> <<>>, render |-> IF p.whens = 0 THEN "CaseException" ELSE ""]
      [] p.fam = "returning" ->
            \* (a scalar function over the statement's OWN table is not generated: the library refuses every Function term, the property only
            \*  demands that aggregates and foreign tables are refused - either outcome for LOWER(own.col) is within the property)
            [calls |-> << IF p.what \in {"agg", "foreign-func", "foreign-func-nested"} THEN "QueryException"
                          ELSE IF p.kind = "select" THEN "QueryException"
                          \* a term that refers to a table which is neither the statement's own nor a FROM / joined one
                          ELSE IF p.what \in {"foreign", "foreign-star", "foreign-expr", "foreign-case", "mixed-expr", "foreign-tuple"} THEN "QueryException" ELSE "" >>,
             render |-> ""]
      [] p.fam = "ddl" -> [calls |-> DdlWalk(p.calls, 1, [created |-> FALSE, cols |-> FALSE, assel |-> FALSE, pk |-> FALSE, dropped |-> FALSE]), render |-> ""]
      [] p.fam = "temporal" -> [calls |-> TempWalk(p.calls, 1, FALSE), render |-> ""]
      [] p.fam = "rollup" -> [calls |-> RollWalk(p.calls, 1, FALSE, FALSE), render |-> ""]
      [] OTHER -> [calls |-> <<>>, render |-> ""]

\* programs are grown by transitions (sets of whole programs are never materialised)
VARIABLES prog, stage
vars == <<prog, stage>>
Init == /\ stage = 0
        /\ prog \in (IF Fam = "oc" THEN {OcBase, OcBaseSel} ELSE {<<>>})
JoinNext == \/ stage = 0 /\ \E f \in Bases : prog' = <<[m |-> "from_", src |-> f]>> /\ stage' = 1
            \/ stage = 1 /\ \E w \in Withs : prog' = prog \o w /\ stage' = 2
            \/ stage = 2 /\ \E p \in Prior(prog[1].src) : prog' = prog \o p /\ stage' = 3
            \/ stage = 3 /\ \E i \in Items, c \in Crits : prog' = Append(prog, J(i, c)) /\ stage' = 4
SeqNext(calls, max) == stage < max /\ \E c \in calls : prog' = Append(prog, c) /\ stage' = stage + 1
MiscNext == stage = 0 /\ \E p \in Misc : prog' = p /\ stage' = 4
Next == IF Fam = "join" THEN JoinNext ELSE IF Fam = "oc" THEN SeqNext(OcCalls, MaxSeq) ELSE IF Fam = "oneshot" THEN SeqNext(ShotCalls, MaxSeq) ELSE MiscNext
Final == IF Fam \in {"join", "misc"} THEN stage = 4 ELSE (Fam = "oc" \/ stage > 0)
Emit == ~Final \/ (IF Fam = "misc" THEN PrintT("P " \o ToJson([prog |-> prog, expect |-> MiscExpect(prog)]))
                   ELSE PrintT("P " \o ToJson([calls |-> prog])))
\* GuardsExact on the design: an independent formulation of join availability agrees with Raises
IndepAvail(b, c) == \A f \in FieldsOf(c.crit) :
                       \/ f[1] = ""          \* a column written without a table names no source
                       \/ f[1] \in {b.from[i] : i \in DOMAIN b.from} \cup {b.joins[i].item : i \in DOMAIN b.joins} \cup {c.item}
                       \/ \E y \in {b.from[i] : i \in DOMAIN b.from} \cup {b.joins[i].item : i \in DOMAIN b.joins} \cup {c.item} :
                             SrcTab(f[1]).kind = "table" /\ SrcTab(y).kind = "table" /\ SrcTab(f[1]).name = SrcTab(y).name
                             /\ SrcTab(f[1]).alias = SrcTab(y).alias /\ SrcTab(f[1]).schema = SrcTab(y).schema
                       \/ (SrcTab(f[1]).kind = "cte" /\ \E i \in DOMAIN b.ctes : b.ctes[i] = SrcTab(f[1]).name)
GuardsExact == (Fam = "join" /\ stage = 4) =>
                  LET n == Len(prog)
                      b == Fold(Empty, SubSeq(prog, 1, n - 1)) IN
                  (Raises(b, prog[n]) = "") = IndepAvail(b, prog[n])
=============================================================================
