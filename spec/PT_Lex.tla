------------------------------- MODULE PT_Lex -------------------------------
(***************************************************************************)
(* Character level of the specification (properties C05, C07; the lexer    *)
(* is also the reference against which the Python lexer of the harness is  *)
(* cross-validated).  Everything is a sequence of code points.             *)
(*                                                                         *)
(*   Lex(chars, d)       reference SQL lexer of dialect d                  *)
(*   EncStr / EncIdent   the INTENDED encoders of string literals and      *)
(*                       quoted identifiers                                *)
(*   LitRoundTrip, IdentRoundTrip, Embeds                                  *)
(*   SameButFor          the relation the judges evaluate on two lexed     *)
(*                       statements (value v versus a benign marker)       *)
(*                                                                         *)
(* Token = [t, v, q]: t in id str num word punct ph comment err; v code    *)
(* points (identifier / string payloads decoded, words upper-cased); q the *)
(* quote character used (0 = none).                                        *)
(***************************************************************************)
EXTENDS Naturals, Integers, Sequences, FiniteSets, TLC

SQ == 39   DQ == 34   BT == 96   BSL == 92   LBR == 91   RBR == 93
NL == 10   SP == 32   MINUS == 45   SLASH == 47   STAR == 42   DOT == 46
QM == 63   PCT == 37  DOLLAR == 36   USC == 95

IdentQuotes(d) == IF d = "mysql" THEN {BT} ELSE IF d = "mssql" THEN {DQ, LBR} ELSE {DQ}
StrQuotes(d)   == IF d = "mysql" THEN {SQ, DQ} ELSE {SQ}
Backslash(d)   == d = "mysql"
\* quote characters the library is expected to use per dialect context
IdentQuoteOf(d) == IF d = "mysql" THEN BT ELSE DQ

IsSpace(c) == c \in {SP, 9, NL, 13}
IsDigit(c) == c >= 48 /\ c <= 57
IsLetter(c) == (c >= 65 /\ c <= 90) \/ (c >= 97 /\ c <= 122) \/ c = USC \/ c >= 128
Upper(c) == IF c >= 97 /\ c <= 122 THEN c - 32 ELSE c

Tok(t, v, q) == [t |-> t, v |-> v, q |-> q]

At(s, p) == IF p <= Len(s) THEN s[p] ELSE -1
Starts(s, p, pat) == p + Len(pat) - 1 <= Len(s) /\ SubSeq(s, p, p + Len(pat) - 1) = pat

(***************************************************************************)
(* scanners: each returns the first position NOT consumed                   *)
(***************************************************************************)
RECURSIVE ScanDigits(_, _), ScanWord(_, _), ScanToNL(_, _), ScanToStarSlash(_, _), ScanQuoted(_, _, _, _, _)
ScanDigits(s, p) == IF p <= Len(s) /\ IsDigit(s[p]) THEN ScanDigits(s, p + 1) ELSE p
ScanWord(s, p) == IF p <= Len(s) /\ (IsLetter(s[p]) \/ IsDigit(s[p]) \/ s[p] = DOLLAR) THEN ScanWord(s, p + 1) ELSE p
ScanToNL(s, p) == IF p <= Len(s) /\ s[p] # NL THEN ScanToNL(s, p + 1) ELSE p
ScanToStarSlash(s, p) == IF p > Len(s) THEN p
                         ELSE IF Starts(s, p, <<STAR, SLASH>>) THEN p + 2 ELSE ScanToStarSlash(s, p + 1)

BslMap(c) == CASE c = 110 -> 10 [] c = 116 -> 9 [] c = 114 -> 13 [] c = 48 -> 0 [] c = 98 -> 8 [] c = 90 -> 26 [] OTHER -> c

\* p is just after the opening quote; close is the closing character; returns
\* [ok, v, p] with p after the closing quote
ScanQuoted(s, p, close, bs, acc) ==
    IF p > Len(s) THEN [ok |-> FALSE, v |-> acc, p |-> p]
    ELSE IF bs /\ s[p] = BSL THEN
        (IF p + 1 > Len(s) THEN [ok |-> FALSE, v |-> acc, p |-> p]
         ELSE ScanQuoted(s, p + 2, close, bs, Append(acc, BslMap(s[p + 1]))))
    ELSE IF s[p] = close THEN
        (IF close # RBR /\ At(s, p + 1) = close THEN ScanQuoted(s, p + 2, close, bs, Append(acc, close))
         ELSE [ok |-> TRUE, v |-> acc, p |-> p + 1])
    ELSE ScanQuoted(s, p + 1, close, bs, Append(acc, s[p]))

ScanNumber(s, p) ==
    LET a == ScanDigits(s, p)
        b == IF At(s, a) = DOT THEN ScanDigits(s, a + 1) ELSE a
        e == IF At(s, b) \in {101, 69} THEN
                 LET k == IF At(s, b + 1) \in {43, 45} THEN b + 2 ELSE b + 1 IN
                 IF k <= Len(s) /\ IsDigit(s[k]) THEN ScanDigits(s, k) ELSE b
             ELSE b
    IN e

Multi == << <<45, 62, 62>>, <<35, 62, 62>>, <<60, 62>>, <<60, 61>>, <<62, 61>>, <<33, 61>>, <<124, 124>>,
            <<45, 62>>, <<35, 62>>, <<64, 62>>, <<60, 64>>, <<63, 38>>, <<63, 124>>, <<58, 58>> >>
Single == {40, 41, 44, 46, 43, 45, 42, 47, 61, 60, 62, 59, 58, 91, 93, 123, 125, 38, 124, 94, 126, 64, 35, 33}

MultiAt(s, p) == LET I == {i \in DOMAIN Multi : Starts(s, p, Multi[i])} IN
                 IF I = {} THEN <<>> ELSE Multi[CHOOSE i \in I : \A j \in I : i <= j]

RECURSIVE UpperSeq(_)
UpperSeq(s) == IF s = <<>> THEN <<>> ELSE <<Upper(Head(s))>> \o UpperSeq(Tail(s))

RECURSIVE LexFrom(_, _, _, _)
LexFrom(s, p, d, acc) ==
    IF p > Len(s) THEN acc
    ELSE LET c == s[p] IN
    IF IsSpace(c) THEN LexFrom(s, p + 1, d, acc)
    ELSE IF Starts(s, p, <<MINUS, MINUS>>) /\ (d # "mysql" \/ p + 2 > Len(s) \/ IsSpace(s[p + 2])) THEN
        LET e == ScanToNL(s, p) IN LexFrom(s, e, d, Append(acc, Tok("comment", SubSeq(s, p, e - 1), 0)))
    ELSE IF Starts(s, p, <<SLASH, STAR>>) THEN
        LET e == ScanToStarSlash(s, p + 2) IN LexFrom(s, e, d, Append(acc, Tok("comment", SubSeq(s, p, e - 1), 0)))
    ELSE IF c \in IdentQuotes(d) THEN
        LET r == ScanQuoted(s, p + 1, IF c = LBR THEN RBR ELSE c, FALSE, <<>>) IN
        IF r.ok THEN LexFrom(s, r.p, d, Append(acc, Tok("id", r.v, c)))
        ELSE Append(acc, Tok("err", SubSeq(s, p, Len(s)), 0))
    ELSE IF c \in StrQuotes(d) THEN
        LET r == ScanQuoted(s, p + 1, c, Backslash(d), <<>>) IN
        IF r.ok THEN LexFrom(s, r.p, d, Append(acc, Tok("str", r.v, c)))
        ELSE Append(acc, Tok("err", SubSeq(s, p, Len(s)), 0))
    ELSE IF IsDigit(c) \/ (c = DOT /\ p + 1 <= Len(s) /\ IsDigit(s[p + 1])) THEN
        LET e == ScanNumber(s, p) IN
        IF e <= Len(s) /\ IsLetter(s[e]) THEN
            LET w == ScanWord(s, e) IN LexFrom(s, w, d, Append(acc, Tok("err", SubSeq(s, p, w - 1), 0)))
        ELSE LexFrom(s, e, d, Append(acc, Tok("num", SubSeq(s, p, e - 1), 0)))
    ELSE IF IsLetter(c) THEN
        LET e == ScanWord(s, p) IN LexFrom(s, e, d, Append(acc, Tok("word", UpperSeq(SubSeq(s, p, e - 1)), 0)))
    ELSE IF Starts(s, p, <<PCT, 115>>) THEN LexFrom(s, p + 2, d, Append(acc, Tok("ph", <<PCT, 115>>, 0)))
    ELSE IF c = DOLLAR /\ p + 1 <= Len(s) /\ IsDigit(s[p + 1]) THEN
        LET e == ScanDigits(s, p + 1) IN LexFrom(s, e, d, Append(acc, Tok("ph", SubSeq(s, p, e - 1), 0)))
    ELSE IF MultiAt(s, p) # <<>> THEN
        LET m == MultiAt(s, p) IN LexFrom(s, p + Len(m), d, Append(acc, Tok("punct", m, 0)))
    ELSE IF c = QM THEN LexFrom(s, p + 1, d, Append(acc, Tok("ph", <<QM>>, 0)))
    ELSE IF c = PCT \/ c \in Single THEN LexFrom(s, p + 1, d, Append(acc, Tok("punct", <<c>>, 0)))
    ELSE LexFrom(s, p + 1, d, Append(acc, Tok("err", <<c>>, 0)))

Lex(chars, d) == LexFrom(chars, 1, d, <<>>)

(***************************************************************************)
(* Intended encoders                                                        *)
(***************************************************************************)
RECURSIVE Doubled(_, _)
\* every character of s that is in the set D is written twice
Doubled(s, D) == IF s = <<>> THEN <<>>
                 ELSE (IF Head(s) \in D THEN <<Head(s), Head(s)>> ELSE <<Head(s)>>) \o Doubled(Tail(s), D)

EncStr(v, d) == <<SQ>> \o Doubled(v, IF Backslash(d) THEN {SQ, BSL} ELSE {SQ}) \o <<SQ>>
EncIdent(n, q) == <<q>> \o Doubled(n, {q}) \o <<q>>

LitRoundTrip(v, d) == Lex(EncStr(v, d), d) = << Tok("str", v, SQ) >>
IdentRoundTrip(n, d) == \A q \in IdentQuotes(d) \ {LBR} : Lex(EncIdent(n, q), d) = << Tok("id", n, q) >>
\* no content can end the literal early or be read as SQL: the literal is one
\* token wherever it is embedded
Embeds(pre, v, suf, d) == Lex(pre \o EncStr(v, d) \o suf, d) = Lex(pre, d) \o << Tok("str", v, SQ) >> \o Lex(suf, d)
EmbedsIdent(pre, n, suf, d) ==
    LET q == IdentQuoteOf(d) IN Lex(pre \o EncIdent(n, q) \o suf, d) = Lex(pre, d) \o << Tok("id", n, q) >> \o Lex(suf, d)

(***************************************************************************)
(* The relation between the statement rendered with the value / name under *)
(* test (toks) and the same statement rendered with a benign marker (btoks) *)
(*   kind   : "str" or "id"                                                 *)
(*   marker : payload of the benign token(s)                                *)
(*   want   : payload the token(s) must decode to                           *)
(*   wq     : set of acceptable quote characters                            *)
(***************************************************************************)
IsMarker(tk, kind, marker) == tk.t = kind /\ tk.v = marker
MarkerIdx(btoks, kind, marker) == {i \in DOMAIN btoks : IsMarker(btoks[i], kind, marker)}

SameButFor(toks, btoks, kind, marker, want, wq) ==
    /\ Len(toks) = Len(btoks)
    /\ MarkerIdx(btoks, kind, marker) # {}
    /\ \A i \in DOMAIN btoks :
          IF IsMarker(btoks[i], kind, marker)
          THEN toks[i].t = kind /\ toks[i].v = want /\ toks[i].q \in wq
          ELSE toks[i] = btoks[i]

\* why it fails (fault class of the signature)
Fault(toks, btoks, kind, marker, want, wq) ==
    LET M == MarkerIdx(btoks, kind, marker) IN
    IF M = {} THEN "marker-not-found"
    ELSE LET j == CHOOSE i \in M : \A k \in M : i <= k IN
    IF \E i \in DOMAIN toks : toks[i].t = "err" THEN "unterminated"
    ELSE IF j > Len(toks) THEN "truncated"
    ELSE IF \E i \in 1..(j - 1) : toks[i] # btoks[i] THEN "prefix-changed"
    ELSE IF toks[j].t # kind THEN (IF kind = "id" /\ toks[j].t = "word" THEN "unquoted"
                                    ELSE IF kind = "id" /\ toks[j].t = "str" THEN "wrong-quote" ELSE "wrong-token-kind")
    ELSE IF toks[j].q \notin wq THEN "wrong-quote"
    ELSE IF toks[j].v # want THEN
            (IF Len(toks) # Len(btoks) THEN "split" ELSE "decodes-differently")
    ELSE IF Len(toks) # Len(btoks) THEN "split"
    ELSE "other-occurrence-or-suffix-changed"
=============================================================================
