------------------------------- MODULE MC_C11 -------------------------------
(* Generator for C11: statements of each kind over each source shape with   *)
(* fields of in-scope and foreign sources placed in every clause that can   *)
(* hold one.  Programs are grown by transitions.                            *)
EXTENDS PT_Builder, Json
CONSTANTS MaxClauses

Fld(s, c) == [k |-> "fld", src |-> s, n |-> c]
Cmp(l, r) == [k |-> "bin", op |-> "=", l |-> l, r |-> r]
Gt(l, r) == [k |-> "bin", op |-> ">", l |-> l, r |-> r]
Num(n) == [k |-> "num", n |-> n]
Sum(t) == [k |-> "call", f |-> "SUM", args |-> <<t>>]

Bases == {"T1", "A3", "S4", "Q6", "C7"}
Seconds == {"none", "from:T2", "from:A1", "join:T2", "join:A1", "using:T2", "using:A1", "using:Q6", "cross:T5", "join:Q6"}
Kinds == {"select", "insertselect", "insertvalues", "update", "delete"}

VARIABLES b, hist, stage, kind, scope
vars == <<b, hist, stage, kind, scope>>
Do(c) == /\ hist' = Append(hist, c) /\ b' = Step(b, c)

Init == /\ stage = 0 /\ hist = <<>> /\ b = Empty /\ kind \in Kinds /\ scope = {}

\* stage 0: the statement's own table / first source
Start == /\ stage = 0
         /\ \E f \in Bases :
               /\ (kind \in {"update", "insertvalues"} => SrcTab(f).kind = "table")
               /\ scope' = {f}
               /\ IF kind = "update" THEN Do([m |-> "update", src |-> f])
                  ELSE IF kind = "insertvalues" THEN Do([m |-> "into", src |-> f])
                  ELSE IF f = "C7" THEN /\ hist' = hist \o <<[m |-> "with_", name |-> "c7"], [m |-> "from_", src |-> f]>>
                                        /\ b' = Step(Step(b, [m |-> "with_", name |-> "c7"]), [m |-> "from_", src |-> f])
                  ELSE Do([m |-> "from_", src |-> f])
         /\ stage' = 1 /\ UNCHANGED kind

\* stage 1: second source (or none), statement-kind switch
Second == /\ stage = 1
          /\ \E s \in Seconds :
                LET base == CHOOSE x \in scope : TRUE
                    t == IF s = "none" THEN "" ELSE IF s \in {"from:T2", "join:T2", "using:T2"} THEN "T2"
                         ELSE IF s \in {"from:A1", "join:A1", "using:A1"} THEN "A1" ELSE IF s = "cross:T5" THEN "T5" ELSE "Q6" IN
                /\ (t # "" => t \notin scope)
                /\ (kind = "insertvalues" => s = "none")
                /\ scope' = IF t = "" THEN scope ELSE scope \cup {t}
                /\ IF s = "none" THEN UNCHANGED <<b, hist>>
                   ELSE IF s \in {"from:T2", "from:A1"} THEN Do([m |-> "from_", src |-> t])
                   ELSE IF s \in {"join:T2", "join:A1", "join:Q6"} THEN
                        Do([m |-> "join", item |-> t, how |-> "", kind |-> "on", crit |-> Cmp(Fld(base, "a"), Fld(t, "a")), cols |-> <<>>])
                   ELSE IF s \in {"using:T2", "using:A1", "using:Q6"} THEN Do([m |-> "join", item |-> t, how |-> "LEFT", kind |-> "using", crit |-> Num("0"), cols |-> <<"a">>])
                   ELSE Do([m |-> "join", item |-> t, how |-> "", kind |-> "cross", crit |-> Num("0"), cols |-> <<>>])
          /\ stage' = 2 /\ UNCHANGED kind

\* stage 2: what makes the statement of its kind
Switch == /\ stage = 2
          /\ IF kind = "delete" THEN Do([m |-> "delete"])
             ELSE IF kind = "insertselect" THEN
                  \* (with a first select item, so that two clause calls - a conflict target and its handler - already give a complete statement)
                  LET c1 == [m |-> "into", src |-> "T5"]
                      c2 == [m |-> "select", terms |-> <<Fld(b.from[1], "c")>>] IN
                  /\ hist' = hist \o <<c1, c2>> /\ b' = Step(Step(b, c1), c2)
             ELSE IF kind = "insertvalues" THEN Do([m |-> "insert", row |-> <<Num("1"), Num("2")>>])
             ELSE UNCHANGED <<b, hist>>
          /\ stage' = 3 /\ UNCHANGED <<kind, scope>>

\* stage 3..: clause calls holding one field of a source in scope (or of a foreign table in WHERE)
ClauseCalls(f) ==
    (IF kind = "select" \/ (kind = "insertselect" /\ MaxClauses > 2) THEN
        { [m |-> "select", terms |-> <<f>>], [m |-> "groupby", terms |-> <<f>>], [m |-> "having", crit |-> Gt(Sum(f), Num("1"))],
          [m |-> "orderby", terms |-> <<f>>, dir |-> ""] }
     ELSE IF kind = "insertselect" THEN { [m |-> "select", terms |-> <<f>>], [m |-> "orderby", terms |-> <<f>>, dir |-> ""] }    \* (quick tier: two clause calls)
     ELSE {})
    \cup (IF kind \in {"select", "insertselect", "update", "delete"} THEN {[m |-> "where", crit |-> Cmp(f, Num("1"))]} ELSE {})
    \cup (IF kind = "select" /\ (MaxClauses > 2 \/ f.src \notin {"A3", "S4", "A1"}) THEN {[m |-> "prewhere", crit |-> Cmp(f, Num("2"))]} ELSE {})
    \cup (IF kind = "update" THEN {[m |-> "set", col |-> "b", val |-> f], [m |-> "setf", f |-> f, val |-> Num("5")]} ELSE {})
    \cup (IF kind = "delete" THEN {[m |-> "orderby", terms |-> <<f>>, dir |-> ""]} ELSE {})
    \cup (IF kind \in {"update", "delete", "insertvalues"} THEN {[m |-> "returning", terms |-> <<f>>]} ELSE {})
    \cup (IF kind = "insertvalues" THEN {[m |-> "columnsf", f |-> f], [m |-> "where", crit |-> Cmp(f, Num("1"))],
                                         [m |-> "do_update", col |-> "b", val |-> f]} ELSE {})
Outside == {"T5", "Q6", "C7"}     \* (A1: the table t1 under an alias and T1b: an equal, distinct Table("t1") object appear in the correlated comparisons below)
NameCalls == IF kind = "insertvalues" THEN {[m |-> "columns", names |-> <<"a", "b">>], [m |-> "on_conflict", names |-> <<"a">>], [m |-> "do_nothing"]}
             ELSE IF kind = "insertselect" THEN {[m |-> "columns", names |-> <<"a">>], [m |-> "on_conflict", names |-> <<"a">>], [m |-> "do_nothing"]} ELSE {}
\* (insertselect statements already hold a select item when they get here: two further clause calls give what three gave before)
Clause == /\ stage >= 3 /\ stage < 3 + (IF kind = "insertselect" /\ MaxClauses > 2 THEN 2 ELSE MaxClauses)
          /\ \/ \E s \in scope \cup Outside, col \in {"a", "b"} : \E c \in ClauseCalls(Fld(s, col)) :
                    /\ (s \in Outside /\ s \notin scope => c.m \in {"where", "prewhere"})       \* an outside source (table, aliased subquery, CTE reference) only in WHERE
                    /\ (c.m \in {"returning", "do_update"} => s \in scope)
                    /\ (c.m \in {"setf", "columnsf"} => s = hist[1].src)                \* name positions take columns of the statement's own table
                    /\ Do(c)
             \* a correlated comparison: an outside source's column against the same-named column of the statement's own first source
             \/ \E s \in {"A1", "T1b", "T5"} \ scope, col \in {"a"}, flip \in BOOLEAN :
                    /\ stage = 3 /\ kind \in {"select", "delete", "update"} /\ hist[1].m \in {"from_", "update"}
                    /\ Do([m |-> "where", crit |-> IF flip THEN Cmp(Fld(hist[1].src, col), Fld(s, col)) ELSE Cmp(Fld(s, col), Fld(hist[1].src, col))])
             \/ \E c \in NameCalls : (\A k \in DOMAIN hist : hist[k] # c) /\ Do(c)
          /\ stage' = stage + 1 /\ UNCHANGED <<kind, scope>>

Next == Start \/ Second \/ Switch \/ Clause
Emit == stage < 3 \/ ~Complete(b) \/ PrintT("H " \o ToJson([hist |-> hist, kind |-> kind]))
\* QualifiedWhenNeeded on the reference projection itself: with more than one row source every reference carries a qualifier
RefQualified == (Complete(b) /\ (Len(b.from) > 1 \/ b.joins # <<>>)) =>
                   \A i \in DOMAIN QualSeq(b, "generic") : LET q == QualSeq(b, "generic")[i] IN
                       q[1] \in {"COLUMNS", "ON CONFLICT"} \/ (q[1] = "SET" /\ q[2] = "" /\ \E k \in DOMAIN b.sets : b.sets[k].col = q[3])
                       \/ (q[1] = "JOIN" /\ q[2] = "") \/ q[2] # ""
=============================================================================
