------------------------------- MODULE J_Lit -------------------------------
(* Judge for C05 (values) and C07 (names): TLC lexes the characters the     *)
(* REAL library emitted for a statement carrying the value / name under     *)
(* test and relates the token list to the token list of the same statement  *)
(* carrying a benign marker.  Events:                                       *)
(*   [tid, d, chars, btoks, kind, marker, alts, bchars?]                    *)
(*   alts : acceptable replacements of a marker token, each a sequence of   *)
(*          [t, v, qs] (qs = acceptable quote characters)                   *)
(*   bchars (optional, sampled): raw benign text; TLC checks that the       *)
(*          Python lexer's btoks equal Lex(bchars) (cross-validation)       *)
EXTENDS PT_Lex, Json, IOUtils
Events == ndJsonDeserialize(IOEnv.TRACE_FILE)
VARIABLE i
Init == i = 1

AltAt(toks, p, alt) ==
    /\ p + Len(alt) - 1 <= Len(toks)
    /\ \A k \in DOMAIN alt : /\ toks[p + k - 1].t = alt[k].t
                             /\ toks[p + k - 1].v = alt[k].v
                             /\ toks[p + k - 1].q \in {alt[k].qs[x] : x \in DOMAIN alt[k].qs}

RECURSIVE Match(_, _, _, _, _, _, _, _)
\* seen: at least one marker was replaced
Match(toks, btoks, p, j, kind, marker, alts, seen) ==
    IF j > Len(btoks) THEN p = Len(toks) + 1 /\ seen
    ELSE IF IsMarker(btoks[j], kind, marker) THEN
        \E a \in DOMAIN alts : AltAt(toks, p, alts[a]) /\ Match(toks, btoks, p + Len(alts[a]), j + 1, kind, marker, alts, TRUE)
    ELSE p <= Len(toks) /\ toks[p] = btoks[j] /\ Match(toks, btoks, p + 1, j + 1, kind, marker, alts, seen)

HasField(e, f) == f \in DOMAIN e

Verdict(e) ==
    LET toks == Lex(e.chars, e.d)
        ok == Match(toks, e.btoks, 1, 1, e.kind, e.marker, e.alts, FALSE)
        lexok == IF HasField(e, "bchars") THEN Lex(e.bchars, e.d) = e.btoks ELSE TRUE
        want == e.alts[1][1]
    IN [tid |-> e.tid, ok |-> ok, lexok |-> lexok,
        fault |-> IF ok THEN "" ELSE Fault(toks, e.btoks, e.kind, e.marker, want.v, {want.qs[x] : x \in DOMAIN want.qs})]

Next == /\ i <= Len(Events)
        /\ LET v == Verdict(Events[i]) IN IF v.ok /\ v.lexok THEN TRUE ELSE PrintT("V " \o ToJson(v))
        /\ i' = i + 1
Spec == Init /\ [][Next]_i
=============================================================================
