------------------------------ MODULE MC_Group ------------------------------
(* Generator / design check for the GROUP BY modifier actions of PT_Meta:   *)
(* every sequence of <= MaxCalls calls from a small alphabet, grown by      *)
(* transitions; each history is printed for the executor (tag "G").         *)
EXTENDS PT_Meta, Json
CONSTANT MaxCalls
VARIABLES hist, s
vars == <<hist, s>>
C(m, cols) == [m |-> m, cols |-> cols]
Calls == { C("groupby", <<"a">>), C("groupby", <<"b", "c">>), C("rollup", <<>>), C("rollup", <<"d">>), C("rollup", <<"e", "f">>),
           C("rollupM", <<>>), C("rollupM", <<"g">>), C("totals", <<>>) }
Init == hist = <<>> /\ s = GroupInit
Next == /\ Len(hist) < MaxCalls /\ s.st = "ok"
        /\ \E c \in Calls : hist' = Append(hist, c) /\ s' = GroupStep(s, c)
Emit == PrintT("G " \o ToJson([hist |-> hist]))
\* the incremental state and the fold agree (the judge folds, the generator steps)
FoldAgrees == GroupFold(GroupInit, hist, 1) = s
Lost == NoColumnLost(hist)
Mods == ModifiersLast(hist)
Brackets == BracketsOK(hist)
=============================================================================
