"""C10 - a subquery renders the same wherever it is embedded.

spec:  PT_Embed (Embed table per position, EmbedsVerbatim, FrameOK), MC_C10 (inner queries with aliased terms per clause x positions)
judge: J_C10 (outer tokens = frame-before . stand-alone inner tokens . frame-after; the frame agrees with Embed)
"""
from __future__ import annotations

import json

from harness import core, execb, lexer, proj, tlc
from harness.c11 import gen


def embed(env, Q, inner, pos):
    """the outer statement with `inner` at position pos (inner already carries the alias the position needs)"""
    P = env.P
    o = P.Table("ot")
    if pos == "from":
        return Q.from_(inner).select("a")
    if pos == "join":
        return Q.from_(o).join(inner).on(o.k == inner.a).select(o.k)
    if pos == "in":
        return Q.from_(o).select(o.k).where(o.k.isin(inner))
    if pos == "cmp":
        return Q.from_(o).select(o.k).where(o.k == inner)
    if pos == "select-item":
        return Q.from_(o).select(o.k, inner)
    o2 = P.Table("ot2")
    if pos == "from-joined":
        return Q.from_(inner).join(o2).on(inner.a == o2.k).select(inner.a, o2.k)
    if pos == "in-joined":
        return Q.from_(o).join(o2).on(o.k == o2.k).select(o.k).where(o.k.isin(inner))
    if pos == "cte-joined":
        return Q.with_(inner, "cq").from_(o).join(o2).on(o.k == o2.k).select(o.k, o2.j)
    if pos == "select-item-joined":
        return Q.from_(o).join(o2).on(o.k == o2.k).select(o.k, inner)
    if pos == "in-bool-group":   # the operand sits in a bracketed AND group under an OR
        return Q.from_(o).select(o.k).where((o.k == 1) | ((o.j == 2) & o.k.isin(inner)))
    if pos == "cmp-bool-group":
        return Q.from_(o).select(o.k).where((o.k == 1) | ((o.j == 2) & (o.k == inner)))
    if pos == "in-not":
        return Q.from_(o).select(o.k).where(o.k.isin(inner).negate() & ~(o.j == 2))
    if pos == "cmp-not":
        from pypika_tortoise.terms import Not
        return Q.from_(o).select(o.k).where(Not(o.k == inner))
    if pos == "join-on-operand":
        t2 = P.Table("ot2")
        return Q.from_(o).join(t2).on((o.k == t2.k) & o.j.isin(inner)).select(o.k)
    if pos == "having-operand":
        return Q.from_(o).select(o.k).groupby(o.k).having(P.functions.Max(o.j) > inner)
    if pos == "function-arg":
        return Q.from_(o).select(P.functions.Coalesce(inner, 0))
    if pos == "case-branch":
        return Q.from_(o).select(P.Case().when(o.k == 1, inner).else_(0))
    if pos == "cte":
        return Q.with_(inner, "cq").from_(P.AliasedQuery("cq")).select("a")
    if pos in ("insert-select", "insert-select-upsert"):
        # INSERT .. SELECT is assembled on one builder: the same calls after Query.into(table)
        q, excs = env.run([{"m": "into", "src": "T5"}] + inner._c10_hist)
        if any(excs):
            raise core.MachineryError(f"insert-select program raised: {excs}")
        if pos == "insert-select-upsert":
            q = q.on_conflict().do_nothing()   # (no target / assignment columns: their qualification is C11's subject)
        return q
    if pos == "insert-value":
        return Q.into(P.Table("t5")).insert(1, inner)
    if pos == "arith-right":
        return Q.from_(o).select(o.k * inner)
    if pos == "arith-sub-right":
        return Q.from_(o).select(o.k).where(o.j - inner > 0)
    if pos == "arith-div-right":
        return Q.from_(o).select((o.k + 1) / inner)
    if pos == "orderby-item":
        return Q.from_(o).select(o.k).orderby(o.j, inner)
    if pos == "groupby-item":
        return Q.from_(o).select(P.functions.Count("*")).groupby(inner, o.j)
    if pos == "orderby-function-arg":
        return Q.from_(o).select(o.k).orderby(P.functions.Coalesce(inner, 0))
    if pos == "set-value":
        return Q.update(P.Table("t5")).set("a", 1).set("b", inner).where(P.Table("t5").c == 3)
    if pos == "do-update-value":
        return Q.into(P.Table("t5")).insert(1, 2).on_conflict("a").do_update("b", inner)
    other = Q.from_(o).select(*[o.field("k%d" % i) for i in range(nsel(inner))])  # same arity as the inner query
    if pos == "setop-base":
        return inner.union(other)
    if pos == "setop-operand":
        return other.union(inner)
    if pos == "setop-operand-after-optout":
        o3 = P.Table("ot3")
        try:
            base3 = Q.from_(o3, wrap_set_operation_queries=False)
        except TypeError:      # (the MySQL builder passes that keyword itself: its queries never ask for the brackets)
            base3 = Q.from_(o3)
        optout = base3.select(*[o3.field("j%d" % i) for i in range(nsel(inner))])
        return other.union(optout).union(inner)
    if pos == "create-as":
        return Q.create_table("nt").as_select(inner)
    raise core.MachineryError(pos)


class NotVerbatim(Exception):
    pass


def nsel(q):
    """number of select items of an inner query: counted from the calls that built it (no look at private attributes)"""
    hist = q.__dict__.get("_c10_hist") or []
    return sum(len(c["terms"]) for c in hist if c["m"] == "select") or 1


def find(hay, needle):
    n = len(needle)
    hits = [i for i in range(len(hay) - n + 1) if hay[i:i + n] == needle]
    return hits


NEST1 = ["from", "join", "in", "cmp", "select-item", "cte"]
NEST2 = ["from", "in", "cte", "select-item", "setop-operand", "join-on-operand"]


def observe(Q, d, h):
    env = execb.Env(Q)
    pos = h["pos"]
    pos2 = h.get("pos2")
    ld = core.lex_dialect(d)
    alias = "sqx" if pos in ("from", "join", "select-item", "from-joined", "select-item-joined") else ""

    def lexs(s):
        return lexer.slim(lexer.lex(s, ld))

    def mk(hist):
        tail = hist[-1] if hist and hist[-1]["m"] == "union_with" else None
        q, excs = env.run(hist[:-1] if tail else hist)
        if any(excs):
            raise core.MachineryError(f"inner program raised: {excs}")
        if tail:
            t2 = env.src[tail["src"]]
            q = q.union_all(Q.from_(t2).select(t2.a))
            if tail.get("orderby"):
                q = q.orderby(env.P.Field("a")).limit(3)
        q = q.as_(alias) if alias else q
        q._c10_hist = hist
        return q

    inner = mk(h["hist"])
    arity = nsel(inner)
    benign = mk([{"m": "from_", "src": "T2"}, {"m": "select", "terms": [{"k": "fld", "src": "T2", "n": "z%d" % i} for i in range(arity)]}] + ([dict(h["hist"][-1], src="T5")] if h["hist"][-1]["m"] == "union_with" else []))  # (the twin of a set operation is a set operation: WITH RECURSIVE is chosen by the kind of the body)
    if pos in ("insert-select", "insert-select-upsert") or h["clause"].startswith("dml-"):
        inner_alone = str(inner)
        benign_alone = str(benign)
    else:
        inner_alone = inner.get_sql(Q.SQL_CONTEXT)
        benign_alone = benign.get_sql(Q.SQL_CONTEXT)
    outer = embed(env, Q, inner, pos)
    outer_b = embed(env, Q, benign, pos)
    if pos2:
        # two levels: the statement that embeds the inner query is itself embedded (the immediate frame is still that of pos)
        al2 = "sqy" if pos2 in ("from", "join", "select-item") else ""
        mid, mid_b = (outer.as_(al2), outer_b.as_(al2)) if al2 else (outer, outer_b)
        # (the embedding statement's select-list arity, for a set-operation partner of the same width: select-item positions select two items)
        mid._c10_hist = mid_b._c10_hist = [{"m": "select", "terms": [None] * (2 if pos.startswith("select-item") else 1)}]
        outer, outer_b = embed(env, Q, mid, pos2), embed(env, Q, mid_b, pos2)
    render = (lambda x: x.get_sql(Q.SQL_CONTEXT)) if pos == "create-as" else str
    to, tb, ti, tbi = lexs(render(outer)), lexs(render(outer_b)), lexs(inner_alone), lexs(benign_alone)
    hits = find(tb, tbi)
    if len(hits) != 1:
        # the plainest inner query of this shape is itself not embedded verbatim (or not exactly once): that is the property failing on the twin
        raise NotVerbatim(f"the benign inner query occurs {len(hits)} times in its outer statement", render(outer_b), benign_alone)
    j = hits[0]
    pre, suf = tb[:j], tb[j + len(tbi):]
    return {"d": d, "pos": pos, "outer": to, "pre": pre, "suf": suf, "inner": ti, "alias": alias,
            "wraps": bool(getattr(inner, "wrap_set_operation_queries", True)), "_outer_sql": render(outer), "_inner_sql": inner_alone}


def run(tier: str) -> int:
    rep = core.Report("C10", tier)
    r = tlc.run("MC_C10Gen", "CONSTANT SrcTab <- G_SrcTab\nINIT Init\nNEXT Next\nINVARIANT Emit\n", workers=8, heap="4g",
                extra_files={"MC_C10Gen.tla": gen("MC_C10")})
    rep.add_tlc(r)
    if r.violation or not r.ok:
        raise core.MachineryError(f"MC_C10: {r.violation}\n{r.raw_tail[-1500:]}")
    hs = r.json_tagged("H")
    events, meta = [], []
    if tier != "quick":
        # thorough: every inner query at every pair (immediate position, position of the embedding statement)
        seen = set()
        base = []
        for h in hs:
            k = json.dumps(h["hist"], sort_keys=True)
            if k not in seen and not h["clause"].startswith("dml-"):
                seen.add(k)
                base.append(h)
        hs = hs + [dict(h, pos=p1, pos2=p2) for h in base for p1 in NEST1 for p2 in NEST2]
    for d, Q in core.query_classes().items():
        for h in hs:
            if h["pos"] in ("insert-select", "insert-select-upsert") and any(c["m"] == "with_" for c in h["hist"]):
                continue  # WITH legitimately precedes INSERT INTO: not an embedding of the text after a prefix
            if h["clause"].startswith("dml-") and d != "postgresql":
                continue  # RETURNING is PostgreSQL's
            if h["clause"].startswith("setop-") and h["pos"] in ("insert-select", "insert-select-upsert", "setop-base", "setop-operand", "setop-operand-after-optout", "create-as"):
                continue  # (a set operation is embedded as a subquery; chaining set operations is not an embedding, as_select() takes a builder only)
            try:
                ev = observe(Q, d, h)
            except NotVerbatim as ex:
                if h.get("pos2"):
                    continue  # (a benign twin that is not unique in a two-level statement: the pair is not judged)
                rep.discrepancy([[h["pos"], "benign-twin-not-verbatim", "setop" if h["clause"].startswith("setop-") else "select"]],
                                {"dialect": d, "position": h["pos"], "outer": ex.args[1], "stand_alone": ex.args[2], "what": ex.args[0]},
                                what="even the plainest inner query of this shape is not embedded as its stand-alone text")
                continue
            except core.MachineryError:
                raise
            except Exception as ex:  # noqa
                rep.discrepancy([[h["pos"], h["clause"], "raises:" + type(ex).__name__]], {"dialect": d, "program": h}, what="embedding or rendering raises")
                continue
            ev["tid"] = len(events)
            events.append(ev)
            meta.append((d, dict(h, pos=h["pos"] + "<" + h["pos2"]) if h.get("pos2") else h))
    slim = [{k: v for k, v in e.items() if not k.startswith("_")} for e in events]
    results = tlc.judge_shards("J_C10", "INIT Init\nNEXT Next\n", slim, shard=max(200, len(slim) // 16 + 1), heap="3g")
    rep.add_tlc(results)
    if sum(max(x.distinct - 1, 0) for x in results) != len(events):
        raise core.MachineryError("J_C10 did not consume every event")
    rep.traces = len(events)
    rep.evaluations = len(events)
    rep.distinct = {(m[1]["pos"], json.dumps(m[1]["hist"], sort_keys=True)) for m in meta}
    for res in results:
        for v in res.json_tagged("V"):
            d, h = meta[v["tid"]]
            e = events[v["tid"]]
            if not v["frame"]:
                rep.discrepancy([[h["pos"], "frame", d]], {"dialect": d, "position": h["pos"], "outer": e["_outer_sql"]},
                                what="brackets / alias around the subquery do not match the position's Embed entry")
            if not v["ok"]:
                where = "outer-prefix"
                if v["at"] > 0:
                    # clause of the inner statement where the embedded text departs
                    cl = dict(proj.top_clauses(lexer.lex(e["_inner_sql"], core.lex_dialect(d))))
                    where = cl.get(min(v["at"] - 1, len(e["inner"]) - 1), "end") if e["inner"] else "empty"
                    if v["at"] > len(e["inner"]):
                        where = "trailing"
                kind = term_kind(h)
                rep.discrepancy([[h["pos"], where or "head", kind]],
                                {"dialect": d, "position": h["pos"], "inner_clause_with_alias": h["clause"], "stand_alone": e["_inner_sql"], "outer": e["_outer_sql"]},
                                what=f"embedded text departs from the stand-alone rendering in the inner {where or 'head'} clause")
    for k in (0, len(meta) // 2, len(meta) - 1):
        rep.sample({"dialect": meta[k][0], "position": meta[k][1]["pos"], "inner": events[k]["_inner_sql"], "outer": events[k]["_outer_sql"]})
    rep.rule = (f"{len(hs)} (inner query, position) pairs: inner queries with an aliased term (9 term classes) in each clause (select, where, group by, having, "
                "order by, join on, paginated) plus nested / parameter-carrying inner queries, at 10 embedding positions x 6 dialects; stand-alone and outer renderings "
                "both come from the real code; TLC checks outer = frame . stand-alone . frame and that the frame agrees with Embed"
                + ("" if tier == "quick" else "; thorough: also two levels deep - 6 immediate positions x 6 positions of the embedding statement"))
    rep.exhaustive = True
    return rep.finish()


def term_kind(h):
    for c in h["hist"]:
        for t in _terms(c):
            if isinstance(t, dict) and t.get("al"):
                return t["k"] + (t.get("op", "") or t.get("f", ""))
    return "none"


def _terms(x):
    if isinstance(x, dict):
        yield x
        for v in x.values():
            yield from _terms(v)
    elif isinstance(x, list):
        for v in x:
            yield from _terms(v)


def replay(path: str) -> int:
    print(json.dumps(json.load(open(path))["example"], indent=1))
    return 0
