"""Shared driver of the character-level judge J_Lit (C05 values, C07 names)."""
from __future__ import annotations

from harness import core, lexer, tlc


def str_alt(payload: str, quotes: list[int]):
    return [{"t": "str", "v": lexer.cps(payload), "qs": quotes}]


def id_alt(payload: str, quotes: list[int]):
    return [{"t": "id", "v": lexer.cps(payload), "qs": quotes}]


def tok_alt(*toks):
    return [{"t": t, "v": lexer.cps(v), "qs": [0]} for t, v in toks]


def make_event(tid, d, text, btext, kind, marker, alts, sample_lex=False):
    ld = core.lex_dialect(d)
    ev = {"tid": tid, "d": ld, "chars": lexer.cps(text), "btoks": lexer.tla_tokens(lexer.lex(btext, ld)),
          "kind": kind, "marker": lexer.cps(marker), "alts": alts}
    if sample_lex:
        ev["bchars"] = lexer.cps(btext)
    return ev


def judge(events, rep: core.Report, shard=None):
    n = len(events)
    shard = shard or max(500, n // 16 + 1)
    results = tlc.judge_shards("J_Lit", "INIT Init\nNEXT Next\n", events, shard=shard, heap="3g", timeout=3000)
    rep.add_tlc(results)
    judged = sum(max(r.distinct - 1, 0) for r in results)
    if judged != n:
        raise core.MachineryError(f"J_Lit consumed {judged} of {n} events")
    bad = {}
    for r in results:
        for v in r.json_tagged("V"):
            if not v["lexok"]:
                raise core.MachineryError(f"Python lexer disagrees with PT_Lex!Lex on event {v['tid']}")
            bad[v["tid"]] = v
    return bad
