-------------------------------- MODULE J_Eq --------------------------------
(* Judge for C17: evaluates the laws of PT_Eq on recorded universes and     *)
(* compares recorded fields_() / tables_ with FieldsOf / TablesOf.          *)
EXTENDS PT_Eq, Json, IOUtils
Events == ndJsonDeserialize(IOEnv.TRACE_FILE)
VARIABLE i
Init == i = 1
ToSet(s) == {s[k] : k \in DOMAIN s}
Verdict(e) ==
    IF e.kind = "universe" THEN [tid |-> e.tid, bad |-> Broken(e), unhashable |-> Unhash(e)]
    ELSE LET want == FieldsOf(e.tree)  got == ToSet(e.fields)
             wantT == TablesOf(e.tree)  gotT == ToSet(e.tables) IN
         [tid |-> e.tid,
          bad |-> (IF got # want THEN {<<"fields", Cardinality(want), Cardinality(got)>>} ELSE {})
                  \cup (IF gotT # wantT THEN {<<"tables", Cardinality(wantT), Cardinality(gotT)>>} ELSE {}),
          unhashable |-> {}]
Next == /\ i <= Len(Events)
        /\ LET v == Verdict(Events[i]) IN IF v.bad = {} /\ v.unhashable = {} THEN TRUE ELSE PrintT("V " \o ToJson(v))
        /\ i' = i + 1
Spec == Init /\ [][Next]_i
=============================================================================
