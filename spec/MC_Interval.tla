---------------------------- MODULE MC_Interval ----------------------------
(* Design check for C18: the intended encoder round-trips through the       *)
(* decoder for every component tuple over Vals (leading component of either *)
(* sign), in both templates; quarters and weeks likewise.                   *)
EXTENDS PT_Interval
CONSTANT Vals
VARIABLES c, sgn
Init == c \in [1..7 -> Vals] /\ sgn \in {1, -1}
Next == UNCHANGED <<c, sgn>>
Signed == IF NZ(c) = {} \/ sgn = 1 THEN c ELSE [c EXCEPT ![Min(NZ(c))] = 0 - c[Min(NZ(c))]]
RoundTripAll == \A d \in {"postgresql", "mysql"} : RoundTrip(Signed, d)
SingleAll == \A d \in {"postgresql", "mysql"}, u \in {8, 9} : RoundTripSingle(sgn * c[1], u, d)
=============================================================================
