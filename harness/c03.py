"""C03 - SQLite-dialect statements mean what the builder calls say (engine-checked).

spec:  PT_RefSql (RefFull: fully parenthesised, fully qualified transcription of the abstract statement; Suspects), MC_C03 (programs of the relational core)
judge: the SQLite engine decides meaning (prepare, EXPLAIN bytecode identity, execution on generated databases);
       J_C03 (TLC) checks that the executed reference IS RefFull of the logged calls and turns the engine records into verdicts
"""
from __future__ import annotations

import json
import multiprocessing as mp
import random
import sqlite3

from harness import core, execb, tlc
from harness.c11 import gen

SHAPES = ["top", "subquery-from", "subquery-from-topn", "subquery-in", "union", "intersect", "except", "union-in", "union-from"]
SCHEMA = ["CREATE TABLE t1 (a INTEGER, b INTEGER, c TEXT)", "CREATE UNIQUE INDEX t1a ON t1 (a)", "CREATE TABLE t2 (a INTEGER, b INTEGER, c TEXT)",
          "CREATE TABLE t3 (a INTEGER, b INTEGER, c TEXT)", "CREATE TABLE t6 (a INTEGER, b INTEGER, c TEXT)", "CREATE TABLE ot (k INTEGER)"]
TABLES = ["t1", "t2", "t3", "t6", "ot"]


def databases(seed, n):
    rnd = random.Random(seed)
    dbs = []
    for k in range(n):
        rows = {}
        for t in TABLES:
            cnt = rnd.choice([0, 1, 2, 3, 4, 5]) if k else 3
            keys = rnd.sample(range(1, 10), cnt)
            if t == "ot":
                rows[t] = [(x,) for x in keys]
            else:
                rows[t] = [(x, rnd.choice([None, -1, 0, 1, 2, 3, 5, 7]), rnd.choice([None, "", "x", "y", "X"])) for x in keys]
        dbs.append(rows)
    return dbs


def connect(rows=None):
    con = sqlite3.connect(":memory:")
    for s in SCHEMA:
        con.execute(s)
    if rows:
        for t, rs in rows.items():
            if rs:
                con.executemany("INSERT INTO %s VALUES (%s)" % (t, ",".join("?" * len(rs[0]))), rs)
    return con


def prepare(sql):
    con = connect()
    try:
        return "", [tuple(r[1:7]) for r in con.execute("EXPLAIN " + sql).fetchall()]
    except sqlite3.Error as ex:
        return str(ex), None
    finally:
        con.close()


def execute(sql, rows, dml):
    con = connect(rows)
    try:
        cur = con.execute(sql)
        out = cur.fetchall()
        if dml:
            return ("ok", [sorted(con.execute("SELECT * FROM %s" % t).fetchall(), key=repr) for t in TABLES])
        return ("ok", out)
    except sqlite3.Error as ex:
        return ("err", type(ex).__name__)
    finally:
        con.close()


def place(env, Q, q, shape):
    P = env.P
    o = P.Table("ot")
    other = Q.from_(o).select(o.k)
    if shape == "top":
        return q
    if shape == "subquery-from":
        return Q.from_(q.as_("sq")).select("a").orderby(1)
    if shape == "subquery-from-topn":   # the sorted derived table of the top-N idiom: its ORDER BY decides which rows the outer LIMIT keeps
        return Q.from_(q.as_("sq")).select("a").limit(2)
    if shape == "subquery-in":
        return Q.from_(o).select(o.k).where(o.k.isin(q)).orderby(1)
    if shape == "correlated-in":
        t1 = P.Table("t1")
        return Q.from_(t1).select(t1.a).where(t1.b.isin(q)).orderby(1)
    if shape == "union-in":     # an (unwrapped) set operation as the IN container / as a derived table
        return Q.from_(o).select(o.k).where(o.k.isin(q.union(other))).orderby(1)
    if shape == "union-from":
        return Q.from_(q.union_all(other).as_("sq")).select("a").orderby(1)
    if shape == "union":
        return q.union(other)
    if shape == "intersect":
        return q.intersect(other)
    if shape == "except":
        return q.except_of(other)
    raise core.MachineryError(shape)


_DBS = None


def work(job):
    tid, p, shape, seed, ndb = job
    global _DBS
    if _DBS is None:
        _DBS = databases(seed, ndb)
    import pypika_tortoise as P

    Q = P.SQLLiteQuery
    env = execb.Env(Q)
    # unwrapped set operations (SQLite does not accept bracketed operands)
    base = core.empty_builder(Q, wrap_set_operation_queries=False)
    q, excs = env.run(p["hist"], start=base)
    if any(excs):
        return None
    try:
        obj = place(env, Q, q, shape)
        sql = str(obj)
    except Exception as ex:  # noqa
        return {"tid": tid, "sql": "", "error": type(ex).__name__ + ": " + str(ex)[:80]}
    ref = p["ref_shaped"]
    dml = p["kind"] in ("insert", "upsert", "upsert-select", "update", "update-from", "update-join", "delete")
    perr, pcode = prepare(sql)
    rerr, rcode = prepare(ref)
    rec = {"tid": tid, "sql": sql, "prepare": perr, "refprepare": rerr, "explain_equal": bool(pcode is not None and pcode == rcode),
           "rows_equal": False, "dbs": 0}
    if not perr and not rerr and not rec["explain_equal"]:
        same = True
        ordered = " ORDER BY " in ref
        for rows in _DBS:
            a, b = execute(sql, rows, dml), execute(ref, rows, dml)
            rec["dbs"] += 1
            if a[0] != b[0]:
                same = False
            elif a[0] == "ok":
                x, y = (a[1], b[1]) if (ordered or dml) else (sorted(a[1], key=repr), sorted(b[1], key=repr))
                if x != y:
                    same = False
            if not same:
                rec["witness"] = {"db": {t: r for t, r in rows.items()}, "library": repr(a)[:300], "reference": repr(b)[:300]}
                break
        rec["rows_equal"] = same
    return rec


def run(tier: str) -> int:
    rep = core.Report("C03", tier)
    consts = "MaxUnits = 1\nRich = TRUE" if tier == "quick" else "MaxUnits = 2\nRich = TRUE"
    r = tlc.run("MC_C03Gen", f"CONSTANTS\n{consts}\nSrcTab <- G_SrcTab\nINIT Init\nNEXT Next\nINVARIANT Emit\n", workers=16, heap="8g",
                extra_files={"MC_C03Gen.tla": gen("MC_C03")}, timeout=3000)
    rep.add_tlc(r)
    if r.violation or not r.ok:
        raise core.MachineryError(f"MC_C03: {r.violation}\n{r.raw_tail[-1500:]}")
    progs = r.json_tagged("P")
    if not progs:
        raise core.MachineryError("generator produced nothing")
    # second unit (thorough) is only paired with the light pool: keep programs whose first unit is rich or second is light -> all generated are kept
    jobs, meta = [], []
    seed, ndb = core.seed(), (6 if tier == "quick" else 12)
    for p in progs:
        shapes = SHAPES if p["kind"].startswith("select") or p["kind"] == "group" else ["top"]
        if p["kind"] == "select-correlated":
            shapes = ["correlated-in"]
        for shape in shapes:
            ms = {c["m"] for c in p["hist"]}
            if shape == "subquery-from-topn":
                if len(_selects(p["hist"])) != 1 or "orderby" not in ms or ms & {"limit", "offset", "slice"}:
                    continue  # (a sorted, unpaginated, one-column derived table)
            elif shape == "correlated-in":
                if len(_selects(p["hist"])) != 1 or ms & {"limit", "offset", "slice", "orderby"}:
                    continue
            elif shape != "top" and (len(_selects(p["hist"])) != 1 or ms & {"limit", "offset", "slice", "orderby"}):
                continue  # nesting shapes need a one-column, unpaginated operand
            q = dict(p)
            q["ref_shaped"] = shaped_ref(shape, p["ref"])
            jobs.append((len(jobs), q, shape, seed, ndb))
            meta.append((p, shape, q["ref_shaped"]))
    with mp.Pool(16) as pool:
        recs = pool.map(work, jobs, chunksize=200)
    events = []
    for (tid, q, shape, _, _), rec in zip(jobs, recs):
        if rec is None:
            continue
        if rec.get("error"):
            rep.discrepancy([["raises", q["kind"], shape]], {"program": q["hist"], "error": rec["error"]}, what="building or rendering raises")
            continue
        events.append({"tid": tid, "hist": q["hist"], "shape": shape, "ref": q["ref_shaped"], "prepare": rec["prepare"], "refprepare": rec["refprepare"],
                       "explain_equal": rec["explain_equal"], "rows_equal": rec["rows_equal"]})
    byid = {j[0]: (j, r) for j, r in zip(jobs, recs)}
    gmod = gen("J_C03")
    results = tlc.judge_shards("J_C03Gen", "CONSTANT SrcTab <- G_SrcTab\nINIT Init\nNEXT Next\n", events, shard=max(300, len(events) // 16 + 1), heap="3g",
                               extra_files={"J_C03Gen.tla": gmod}, timeout=3000)
    rep.add_tlc(results)
    if sum(max(x.distinct - 1, 0) for x in results) != len(events):
        raise core.MachineryError("J_C03 did not consume every event")
    rep.traces = len(events)
    rep.evaluations = len(events)
    rep.distinct = {(m[1], json.dumps(m[0]["hist"], sort_keys=True)) for m in meta}
    rep.extra.update({"identical_bytecode": sum(1 for r in recs if r and r.get("explain_equal")),
                      "decided_by_execution": sum(1 for r in recs if r and not r.get("explain_equal") and r.get("dbs")),
                      "programs_without_meaning": sum(1 for r in recs if r and r.get("prepare") and r.get("prepare") == r.get("refprepare")),
                      "databases": ndb, "sqlite_version": sqlite3.sqlite_version})
    bad = []
    for res in results:
        bad += res.json_tagged("V")
    for v in sorted(bad, key=lambda v: len(byid[v["tid"]][0][1]["hist"])):
        (tid, q, shape, _, _), rec = byid[v["tid"]]
        if not v["bound"]:
            raise core.MachineryError(f"executed reference is not RefFull of the logged calls (event {tid})")
        if v["fault"] == "reference-rejected":
            raise core.MachineryError(f"SQLite rejects the REFERENCE transcription: {rec['refprepare']}: {q['ref_shaped']}")
        sus = sorted(q["suspects"]) + ([] if shape == "top" else ["shape:" + shape])
        sigs = [[v["fault"], s] for s in sus] or [[v["fault"], q["kind"], "no-suspect"]]
        rep.discrepancy(sigs, {"kind": q["kind"], "shape": shape, "calls": q["hist"], "library_sql": rec["sql"], "reference_sql": q["ref_shaped"],
                               "engine": rec["prepare"] or rec.get("witness")},
                        what="SQLite rejects the rendered statement" if v["fault"] == "prepare-error" else "the rendered statement and its reference transcription give different results")
    badids = {v["tid"] for v in bad}
    ok = [e for e in events if e["tid"] not in badids and not e["prepare"]]
    for e in ok[:: max(1, len(ok) // 4)][:4]:
        (tid, q, shape, _, _), rec = byid[e["tid"]]
        rep.sample({"kind": q["kind"], "shape": shape, "library_sql": rec["sql"], "reference_sql": q["ref_shaped"],
                    "verdict": "identical bytecode" if rec["explain_equal"] else f"same results on {rec['dbs']} databases"})
    rep.rule = (f"TLC grows programs of the relational core (12 bases: select over plain / aliased / joined (inner, left, cross, comma, self) / subquery sources, grouped, "
                f"insert, upsert, update (plain, FROM, JOIN), delete) x clause units (~{150} select terms incl. every arithmetic parent/child/side pair, ~45 criteria, "
                "DISTINCT, ORDER BY, LIMIT/OFFSET/slice, HAVING, window functions, INSERT rows / INSERT..SELECT / REPLACE, upsert actions, SET expressions) and "
                "prints each with its reference transcription RefFull; SELECT programs are also nested (FROM / IN subquery, UNION / INTERSECT / EXCEPT unwrapped); "
                "SQLite prepares both texts; identical EXPLAIN bytecode = equivalent on all data, otherwise both run on seeded databases")
    rep.exhaustive = True
    rep.assumptions = ["SQLite " + sqlite3.sqlite_version + " is the meaning of SQLite-dialect SQL", "equivalence beyond identical bytecode is tested on generated databases only"]
    return rep.finish()


def _selects(hist):
    out = []
    for c in hist:
        if c["m"] == "select":
            out += c["terms"]
    return out


def shaped_ref(shape, ref):
    if shape == "top":
        return ref
    if shape == "subquery-from":
        return 'SELECT "sq"."a" FROM (' + ref + ') AS "sq" ORDER BY 1'
    if shape == "subquery-from-topn":
        return 'SELECT "sq"."a" FROM (' + ref + ') AS "sq" LIMIT 2'
    if shape == "correlated-in":
        return 'SELECT "t1"."a" FROM "t1" WHERE ("t1"."b" IN (' + ref + ')) ORDER BY 1'
    if shape == "union-in":
        return 'SELECT "ot"."k" FROM "ot" WHERE ("ot"."k" IN (' + ref + ' UNION SELECT "ot"."k" FROM "ot")) ORDER BY 1'
    if shape == "union-from":
        return 'SELECT "sq"."a" FROM (' + ref + ' UNION ALL SELECT "ot"."k" FROM "ot") AS "sq" ORDER BY 1'
    if shape == "subquery-in":
        return 'SELECT "ot"."k" FROM "ot" WHERE ("ot"."k" IN (' + ref + ')) ORDER BY 1'
    return ref + {"union": " UNION", "intersect": " INTERSECT", "except": " EXCEPT"}[shape] + ' SELECT "ot"."k" FROM "ot"'


def replay(path: str) -> int:
    print(json.dumps(json.load(open(path))["example"], indent=1))
    return 0
