------------------------------- MODULE MC_Sel -------------------------------
(* Generator for the select-list rules (X01): sequences of select calls     *)
(* over columns, table stars, "*", a function and an equal twin of a table. *)
EXTENDS PT_Builder, Json
CONSTANTS MaxCalls, Wide
Fld(s, c) == [k |-> "fld", src |-> s, n |-> c]
Star(s) == [k |-> "star", src |-> s]
Items == { Fld("T1", "a"), Fld("T1", "b"), Fld("T2", "a"), Fld("T1b", "c"), Star("T1"), Star("T2"), Star("T1b"),
           [k |-> "call", f |-> "COUNT", args |-> <<Fld("T1", "a")>>] }
Calls == { [m |-> "select", terms |-> <<t>>] : t \in Items }
         \cup { [m |-> "selectstr", name |-> n] : n \in {"*", "c"} }
         \cup (IF Wide THEN { [m |-> "select", terms |-> <<t, u>>] : t \in Items, u \in Items } ELSE {})
Prefix == << [m |-> "from_", src |-> "T1"],
             [m |-> "join", item |-> "T2", how |-> "", kind |-> "on", crit |-> [k |-> "bin", op |-> "=", l |-> Fld("T1", "a"), r |-> Fld("T2", "a")], cols |-> <<>>] >>
VARIABLES hist, n
Init == hist = Prefix /\ n = 0
Next == n < MaxCalls /\ \E c \in Calls : hist' = Append(hist, c) /\ n' = n + 1
\* design: a column is never listed beside the star of its own table, "*" is alone among the columns, no table star repeats
SelSane == LET b == Fold(Empty, hist)  p == SelProj(b) IN
           /\ \A i, j \in DOMAIN p : (i # j /\ p[i][2] = "*" /\ p[i][1] # "" /\ p[j][1] # "") => ~SameTable(p[i][1], p[j][1])
           /\ (b.star => \A i \in DOMAIN p : p[i][2] \in {"*", "FN", "EXPR"})
Emit == n = 0 \/ PrintT("H " \o ToJson([hist |-> hist, want |-> SelProj(Fold(Empty, hist))]))
=============================================================================
