------------------------------- MODULE MC_Ddl -------------------------------
(* Generator for the CREATE TABLE family of C13: every subset of <= MaxCalls *)
(* calls of the pool and all its permutations.                               *)
EXTENDS PT_Ddl, Json
CONSTANT MaxCalls
Pool == << [m |-> "temporary"], [m |-> "unlogged"], [m |-> "if_not_exists"], [m |-> "with_system_versioning"],
           [m |-> "columns", names |-> <<"a">>], [m |-> "columns", names |-> <<"b", "c">>], [m |-> "unique", names |-> <<"a">>],
           [m |-> "unique", names |-> <<"b", "c">>], [m |-> "primary_key", names |-> <<"a", "b">>], [m |-> "period_for", name |-> "p", a |-> "a", b |-> "b"] >>
VARIABLES perm
Init == perm = <<>>
Next == /\ Len(perm) < MaxCalls
        /\ \E i \in DOMAIN Pool : (\A k \in DOMAIN perm : perm[k] # i) /\ perm' = Append(perm, i)
Calls == [k \in DOMAIN perm |-> Pool[perm[k]]]
Emit == PrintT("P " \o ToJson([perm |-> perm, calls |-> Calls]))
\* design-level commutation on every reachable state
Commutes == \A i, j \in DOMAIN Pool : (i # j /\ DClauseOf(Pool[i]) # DClauseOf(Pool[j])) =>
               DStep(DStep(DFold(DEmpty, Calls), Pool[i]), Pool[j]) = DStep(DStep(DFold(DEmpty, Calls), Pool[j]), Pool[i])
=============================================================================
