"""Catalogue of receivers (seeds) and call labels for the history-based checks
(C01 Frozen, C15 duplication, C02 render purity).

A *family* is a set of seeds (functions building a fresh receiver) and labels
(name -> function(receiver) -> result).  Every label names the
@builder-decorated (class, method) it exercises, so that coverage of the live
module's builder methods can be measured (introspection in builder_methods()).
Arguments are built fresh inside every label call; the shared table pool is
never passed where the library would write an alias into it.
"""
from __future__ import annotations

import importlib
import inspect

MODS = ["pypika_tortoise.queries", "pypika_tortoise.terms", "pypika_tortoise.functions", "pypika_tortoise.analytics",
        "pypika_tortoise.dialects.mysql", "pypika_tortoise.dialects.postgresql", "pypika_tortoise.dialects.mssql",
        "pypika_tortoise.dialects.oracle", "pypika_tortoise.dialects.sqlite"]


def builder_methods() -> set[tuple[str, str]]:
    """(class name, method name) of every @builder-decorated method defined in the live package"""
    out = set()
    for m in MODS:
        mod = importlib.import_module(m)
        for _, c in inspect.getmembers(mod, inspect.isclass):
            if not c.__module__.startswith("pypika_tortoise"):
                continue
            for mn, f in c.__dict__.items():
                if callable(f) and getattr(f, "__name__", "") == "_copy" and getattr(f, "__qualname__", "").startswith("builder"):
                    out.add((c.__name__, mn))
    return out


def owner(obj, meth: str) -> tuple[str, str]:
    """the class in obj's MRO that defines meth"""
    for c in type(obj).__mro__:
        if meth in c.__dict__:
            return (c.__name__, meth)
    return (type(obj).__name__, meth)


# shared, initially un-aliased subquery objects: the one argument kind the library writes to (automatic sq<n> alias).
# Re-created before every history (reset_pool); labels named "...#pool*" pass the SAME object to several calls.
POOL: dict = {}


def reset_pool():
    import pypika_tortoise as P

    POOL.clear()
    for k in ("A", "B", "C"):
        POOL[k] = P.Query.from_(P.Table("p" + k.lower())).select("z")


TABLE_CLS = None


def _first_join(q):
    """the join term a builder holds (found by its class, whatever the builder calls the list)"""
    from pypika_tortoise.queries import Join

    for v in vars(q).values():
        if isinstance(v, list) and v and isinstance(v[0], Join):
            return v[0]
    raise LookupError("no join term found on the builder")


def _select_only(r):
    """only a SELECT is embedded as a subquery (an upsert's alias, for one, is MySQL's row alias: another meaning)"""
    if not str(r).lstrip("(").upper().startswith(("SELECT", "WITH")):
        raise ValueError("not a SELECT")
    return r


class Label:
    def __init__(self, name, meth, fn, extra=()):
        self.name = name      # unique label, e.g. "where#local"
        self.meth = meth      # method name exercised on the receiver
        self.fn = fn          # fn(receiver) -> result
        self.extra = extra    # further (class, method) pairs exercised on the way


class Family:
    def __init__(self, name, seeds: dict, labels: list[Label]):
        self.name = name
        self.seeds = seeds
        self.mutable_seeds = {}      # the same receivers created with immutable=False FROM THE START (no builder call ever copied them)
        self.labels = {l.name: l for l in labels}


def families() -> dict[str, Family]:
    import pypika_tortoise as P
    from pypika_tortoise import analytics as an
    from pypika_tortoise import functions as fn
    from pypika_tortoise.enums import JoinType, Order
    from pypika_tortoise.queries import Column
    from pypika_tortoise.terms import Tuple

    T = TABLE_CLS or P.Table   # (C02 substitutes a Table subclass that reports when it is rendered: a probe inside the render)
    t1, t2 = T("t1"), T("t2")
    SCH = P.Schema("inv")

    def L(name, meth, f, extra=()):
        return Label(name, meth, f, extra)

    fams = {}
    QC = {"generic": P.Query, "mysql": P.MySQLQuery, "postgresql": P.PostgreSQLQuery, "sqlite": P.SQLLiteQuery,
          "mssql": P.MSSQLQuery, "oracle": P.OracleQuery}
    for d, Q in QC.items():
        def sub(Q=Q):
            return Q.from_(T("t9")).select("z")

        def other(Q=Q):
            return Q.from_(T("t8")).select(T("t8").q, T("t8").r)

        seeds = {
            "from": lambda Q=Q: Q.from_(t1),
            "full": lambda Q=Q: (Q.from_(t1).select(t1.a, fn.Sum(t1.b).as_("s")).join(t2).on(t1.a == t2.a).where(t1.a > 0)
                                 .groupby(t1.a).having(fn.Sum(t1.b) > 1).orderby(t1.a).limit(10).offset(2)
                                 .force_index("ix1").use_index("ix2").for_update(of=("t1",)).rollup(t1.c)),
            "insert": lambda Q=Q: Q.into(t1).columns("a", "b").insert(1, 2),
            "upsert": lambda Q=Q: Q.into(t1).insert(1, 2).on_conflict("a").do_update("b", 5),
            "update": lambda Q=Q: Q.update(t1).set(t1.a, 1).where(t1.b == 2),
            "updjoin": lambda Q=Q: Q.update(t1).join(t2).on(t1.a == t2.a).set(t1.a, t2.b).where(t2.c == 2),
            "delete": lambda Q=Q: Q.from_(t1).delete().where(t1.a == 1),
            # a set operation as FROM source (its operands hold the tables the labels also use)
            "from_setop": lambda Q=Q: Q.from_((Q.from_(t1).select(t1.a) + Q.from_(t2).select(t2.a)).as_("un")).select("a"),
            # tables written as attributes of one Schema object (every access is expected to give a table of its own)
            "schattr": lambda Q=Q: Q.from_(SCH.parts).select(SCH.parts.id, SCH.parts.qty).where(SCH.parts.qty > 3),
        }
        labels = [
            L("select#f", "select", lambda r: r.select(t1.b)),
            L("select#alias", "select", lambda r: r.select(t1.c.as_("al"))),
            L("select#agg", "select", lambda r: r.select(fn.Count("*"))),
            L("select#star", "select", lambda r: r.select("*")),
            L("select#val", "select", lambda r: r.select(7)),
            L("where#local", "where", lambda r: r.where(t1.a == 1)),
            L("where#foreign", "where", lambda r: r.where(T("t7").x == 2)),
            L("prewhere", "prewhere", lambda r: r.prewhere(t1.b < 3)),
            L("having", "having", lambda r: r.having(fn.Max(t1.b) < 9)),
            L("groupby#f", "groupby", lambda r: r.groupby(t1.b)),
            L("groupby#str", "groupby", lambda r: r.groupby("c")),
            L("orderby#f", "orderby", lambda r: r.orderby(t1.b)),
            L("orderby#desc", "orderby", lambda r: r.orderby(t1.c, order=Order.desc)),
            L("join#on", "join", lambda r: r.join(T("t3")).on(t1.a == T("t3").a)),
            L("join#schema-attr", "join", lambda r: r.join(SCH.parts).on_field("parent_id")),
            # the table OBJECT that other statements of the scenario also hold (not a fresh equal one): a join that is no self-join must leave it alone
            L("join#shared-t2", "join", lambda r: r.join(t2).on(P.Field("k") == t2.a)),      # (a table-less column: the condition is valid over any FROM)
            L("join#using", "join", lambda r: r.join(T("t4"), JoinType.left).using("a")),
            L("join#cross", "join", lambda r: r.join(T("t5")).cross()),
            L("join#subq", "join", lambda r: r.join(sub()).on_field("z")),
            L("limit", "limit", lambda r: r.limit(5)),
            L("offset", "offset", lambda r: r.offset(3)),
            L("slice", "slice", lambda r: r[1:4]),
            L("distinct", "distinct", lambda r: r.distinct()),
            L("force_index", "force_index", lambda r: r.force_index("fi")),
            L("use_index", "use_index", lambda r: r.use_index("ui")),
            L("for_update", "for_update", lambda r: r.for_update(nowait=True)),
            L("for_update#of", "for_update", lambda r: r.for_update(of=("t2",))),
            L("for_update#of-many", "for_update", lambda r: r.for_update(of=unstable_names())),
            L("with_", "with_", lambda r: r.with_(sub(), "cte1")),
            L("with_#same-name-other-body", "with_", lambda r: r.with_(other(), "cte1")),
            L("with_totals", "with_totals", lambda r: r.with_totals()),
            L("rollup#a", "rollup", lambda r: r.rollup(t1.d)),
            L("rollup#b", "rollup", lambda r: r.rollup(t1.e, t1.f)),
            L("rollup#mysql", "rollup", lambda r: r.rollup(t1.g, vendor="mysql")),
            L("union", "union", lambda r: r.union(other())),
            L("union_all", "union_all", lambda r: r.union_all(other())),
            L("intersect", "intersect", lambda r: r.intersect(other())),
            L("except_of", "except_of", lambda r: r.except_of(other())),
            L("minus", "minus", lambda r: r.minus(other())),
            L("from_#t", "from_", lambda r: r.from_(T("t6"))),
            L("from_#subq", "from_", lambda r: r.from_(sub())),
            L("replace_table", "replace_table", lambda r: r.replace_table(t1, T("t1new"))),
            L("into", "into", lambda r: r.into(T("tt"))),
            L("insert", "insert", lambda r: r.insert(3, 4)),
            L("columns", "columns", lambda r: r.columns("c")),
            L("replace", "replace", lambda r: r.replace(5, 6)),
            L("set", "set", lambda r: r.set(t1.c, 3)),
            L("on_conflict", "on_conflict", lambda r: r.on_conflict("b")),
            L("do_nothing", "do_nothing", lambda r: r.do_nothing()),
            L("do_update", "do_update", lambda r: r.do_update("c", 7)),
            L("delete", "delete", lambda r: r.delete()),
            L("update", "update", lambda r: r.update(T("tu"))),
            L("as_", "as_", lambda r: r.as_("sqa")),
            L("join#poolA", "join", lambda r: r.join(POOL["A"]).on_field("z")),
            L("join#poolB", "join", lambda r: r.join(POOL["B"]).on_field("z")),
            L("from_#poolC", "from_", lambda r: r.from_(POOL["C"])),
            # the receiver itself becomes a source / operand of a NEW statement: it may be given the automatic alias (the one permitted side
            # effect on an argument); nothing derived from it earlier may change
            L("wrap#from", "from_", lambda r, Q=Q: Q.from_(_select_only(r)).select("*")),
            L("wrap#join", "join", lambda r, Q=Q: Q.from_(T("wj")).join(_select_only(r)).on_field("z")),
            L("wrap#in", "where", lambda r, Q=Q: Q.from_(T("wi")).select("z").where(T("wi").z.isin(_select_only(r)))),
        ]
        if d == "mssql":
            labels += [L("top", "top", lambda r: r.top(3)), L("fetch_next", "fetch_next", lambda r: r.fetch_next(2))]
        if d == "mysql":
            labels += [L("modifier", "modifier", lambda r: r.modifier("SQL_CALC_FOUND_ROWS")),
                       L("modifier#2", "modifier", lambda r: r.modifier("HIGH_PRIORITY"))]
        if d == "postgresql":
            labels += [L("distinct_on", "distinct_on", lambda r: r.distinct_on(t1.b)),
                       L("distinct_on#str", "distinct_on", lambda r: r.distinct_on("c")),
                       L("returning#f", "returning", lambda r: r.returning(t1.a)),
                       L("returning#str", "returning", lambda r: r.returning("b")),
                       L("returning#star", "returning", lambda r: r.returning("*"))]
        fams["qb_" + d] = Family("qb_" + d, seeds, labels)
        fams["qb_" + d].mutable_seeds = {
            "from": lambda Q=Q: Q.from_(t1, immutable=False),
            "full": lambda Q=Q: (Q.from_(t1, immutable=False).select(t1.a, fn.Sum(t1.b).as_("s")).join(t2).on(t1.a == t2.a).where(t1.a > 0)
                                 .groupby(t1.a).having(fn.Sum(t1.b) > 1).orderby(t1.a).limit(10).offset(2)),
            "insert": lambda Q=Q: Q.into(t1, immutable=False).columns("a", "b").insert(1, 2),
            "update": lambda Q=Q: Q.update(t1, immutable=False).set(t1.a, 1).where(t1.b == 2),
        }

    Q = P.Query

    def q_a():
        return Q.from_(t1).select(t1.a)

    def q_b():
        return Q.from_(t2).select(t2.a)

    fams["setop"] = Family("setop", {
        "union": lambda: q_a().union(q_b()),
        "full": lambda: q_a().union(q_b()).orderby(t1.a).limit(3).offset(1),
        "mysql": lambda: P.MySQLQuery.from_(t1).select(t1.a).union(P.MySQLQuery.from_(t2).select(t2.a)),
    }, [
        L("orderby", "orderby", lambda r: r.orderby(t1.a)),
        L("orderby#str", "orderby", lambda r: r.orderby("a", order=Order.desc)),
        L("limit", "limit", lambda r: r.limit(7)),
        L("offset", "offset", lambda r: r.offset(8)),
        L("union", "union", lambda r: r.union(Q.from_(T("t3")).select("a"))),
        L("union_all", "union_all", lambda r: r.union_all(Q.from_(T("t4")).select("a"))),
        L("intersect", "intersect", lambda r: r.intersect(Q.from_(T("t5")).select("a"))),
        L("except_of", "except_of", lambda r: r.except_of(Q.from_(T("t6")).select("a"))),
        L("minus", "minus", lambda r: r.minus(Q.from_(T("t7")).select("a"))),
        L("as_", "as_", lambda r: r.as_("u1")),
        L("wrap#from", "from_", lambda r: Q.from_(r).select("*")),
        L("wrap#join", "join", lambda r: Q.from_(T("wj")).join(r).on_field("a")),
    ])

    fams["create"] = Family("create", {
        "cols": lambda: Q.create_table("ct").columns(Column("a", "INT"), Column("b", "VARCHAR(5)", default="x")),
        "bare": lambda: Q.create_table("ct"),
        "nullable": lambda: Q.create_table("ct").columns(Column("n", "INT", nullable=True), Column("a", "INT", nullable=False)),
        "full": lambda: (Q.create_table("ct").columns(Column("a", "INT")).period_for("p", "a", "b").unique("a")
                         .primary_key("a").if_not_exists()),
    }, [
        L("temporary", "temporary", lambda r: r.temporary()),
        L("unlogged", "unlogged", lambda r: r.unlogged()),
        L("with_system_versioning", "with_system_versioning", lambda r: r.with_system_versioning()),
        L("columns#str", "columns", lambda r: r.columns("c")),
        L("columns#tuple", "columns", lambda r: r.columns(("d", "INT"))),
        L("columns#col", "columns", lambda r: r.columns(Column("e", "INT", nullable=False))),
        L("period_for", "period_for", lambda r: r.period_for("q", "c", "d")),
        L("unique", "unique", lambda r: r.unique("a", "b")),
        L("unique#2", "unique", lambda r: r.unique("c")),
        L("primary_key", "primary_key", lambda r: r.primary_key("b")),
        L("primary_key#declared-null", "primary_key", lambda r: r.primary_key("n")),
        L("unique#declared-null", "unique", lambda r: r.unique("n", "a")),
        L("as_select", "as_select", lambda r: r.as_select(q_a())),
        L("if_not_exists", "if_not_exists", lambda r: r.if_not_exists()),
        L("create_table", "create_table", lambda r: r.create_table("zz")),
    ])
    fams["drop"] = Family("drop", {"drop": lambda: Q.drop_table("dt"), "empty": lambda: __import__("pypika_tortoise.queries", fromlist=["x"]).DropQueryBuilder()}, [
        L("if_exists", "if_exists", lambda r: r.if_exists()),
        L("drop_table", "drop_table", lambda r: r.drop_table("zz")),
    ])
    fams["load"] = Family("load", {"load": lambda: P.MySQLQuery.load("/f.csv"), "full": lambda: P.MySQLQuery.load("/f.csv").into("lt")}, [
        L("load", "load", lambda r: r.load("/g.csv")),
        L("into", "into", lambda r: r.into("lt2")),
    ])
    fams["table"] = Family("table", {
        "plain": lambda: T("t1"), "alias": lambda: T("t1", alias="x"), "schema": lambda: T("t1", schema="s"),
        "for": lambda: T("t1").for_(P.SYSTEM_TIME.as_of("2020-01-01")),
    }, [
        L("as_", "as_", lambda r: r.as_("y")),
        L("for_", "for_", lambda r: r.for_(P.SYSTEM_TIME.between("2020-01-01", "2020-02-01"))),
        L("for_portion", "for_portion", lambda r: r.for_portion(P.SYSTEM_TIME.from_to("2020-01-01", "2020-02-01"))),
    ])
    fams["case"] = Family("case", {
        "one": lambda: P.Case().when(t1.a == 1, "x"),
        "empty": lambda: P.Case(),
        "full": lambda: P.Case(alias="c0").when(t1.a == 1, 1).when(t1.a == 2, t1.b).else_(0),
    }, [
        L("when#1", "when", lambda r: r.when(t1.b == 3, "y")),
        L("when#2", "when", lambda r: r.when(t2.c > 4, t2.d)),
        L("else_", "else_", lambda r: r.else_("z")),
        L("as_", "as_", lambda r: r.as_("c1")),
        L("replace_table", "replace_table", lambda r: r.replace_table(t1, T("t1new"))),
    ])
    fams["agg"] = Family("agg", {
        "sum": lambda: fn.Sum(t1.a), "count": lambda: fn.Count(t1.b, alias="cn"), "max": lambda: fn.Max(t1.c),
        "filtered": lambda: fn.Sum(t1.a).filter(t1.b > 0),
    }, [
        L("filter#1", "filter", lambda r: r.filter(t1.c == 1)),
        L("filter#2", "filter", lambda r: r.filter(t1.d == 2, t1.e == 3)),
        L("distinct", "distinct", lambda r: r.distinct()),
        L("as_", "as_", lambda r: r.as_("ag")),
        L("replace_table", "replace_table", lambda r: r.replace_table(t1, T("t1new"))),
    ])
    fams["analytic"] = Family("analytic", {
        "rank": lambda: an.Rank(), "sum": lambda: an.Sum(t1.a), "first": lambda: an.FirstValue(t1.a),
        "full": lambda: an.Sum(t1.a).over(t1.b).orderby(t1.c),
    }, [
        L("over#1", "over", lambda r: r.over(t1.d)),
        L("over#2", "over", lambda r: r.over(t1.e, t1.f)),
        L("orderby#1", "orderby", lambda r: r.orderby(t1.g)),
        L("orderby#desc", "orderby", lambda r: r.orderby(t1.h, order=Order.desc)),
        L("filter", "filter", lambda r: r.filter(t1.i == 1)),
        L("rows", "rows", lambda r: r.rows(an.Preceding(1), an.CURRENT_ROW)),
        L("range", "range", lambda r: r.range(an.Preceding(), an.Following(2))),
        L("ignore_nulls", "ignore_nulls", lambda r: r.ignore_nulls()),
        L("as_", "as_", lambda r: r.as_("an")),
        L("replace_table", "replace_table", lambda r: r.replace_table(t1, T("t1new"))),
    ])
    from pypika_tortoise.terms import NestedCriterion
    from pypika_tortoise.enums import Equality, Boolean
    fams["term"] = Family("term", {
        "field": lambda: t1.a, "in": lambda: t1.a.isin([1, 2]), "cmp": lambda: t1.a == t2.a, "between": lambda: t1.a.between(1, t1.b),
        "bitand": lambda: t1.a.bitwiseand(4), "isnull": lambda: t1.a.isnull(), "not": lambda: (t1.a == 1).negate(),
        "tuple": lambda: Tuple(t1.a, t1.b), "arith": lambda: t1.a + t1.b * 2, "func": lambda: fn.Coalesce(t1.a, t1.b),
        "complex": lambda: (t1.a == 1) & (t1.b == 2) | (t1.c == 3),
        "nested": lambda: NestedCriterion(Equality.eq, Boolean.and_, t1.a, t1.b, t1.c),
        "value": lambda: P.ValueWrapper(5),
        "not_field": lambda: ~t1.payload, "not_in": lambda: t1.a.isin([1, 2]).negate().negate() if False else P.terms.Not(t1.a.isin([1, 2])),
    }, [
        # methods reached through dynamic attribute lookup (Not.__getattr__ re-wraps the delegate's result)
        L("dyn#has_key", "has_key", lambda r: r.has_key("k")),
        L("dyn#get_json_value", "get_json_value", lambda r: r.get_json_value("k")),
        L("dyn#isin", "isin", lambda r: r.isin([7, 8])),
        L("as_", "as_", lambda r: r.as_("tz")),
        L("replace_table", "replace_table", lambda r: r.replace_table(t1, T("t1new"))),
        L("replace_table#2", "replace_table", lambda r: r.replace_table(t2, T("t2new"))),
        L("negate", "negate", lambda r: r.negate()),
    ])
    fams["join"] = Family("join", {
        "on": lambda: _first_join(Q.from_(t1).join(t2).on(t1.a == t2.a)),
        "using": lambda: _first_join(Q.from_(t1).join(t2).using("a")),
        "cross": lambda: _first_join(Q.from_(t1).join(t2).cross()),
    }, [
        L("replace_table", "replace_table", lambda r: r.replace_table(t2, T("t2new"))),
        L("replace_table#1", "replace_table", lambda r: r.replace_table(t1, T("t1new"))),
    ])
    _auto_labels(fams)
    return fams


def _inner(f):
    """the function wrapped by @builder"""
    for c in getattr(f, "__closure__", None) or ():
        try:
            if inspect.isfunction(c.cell_contents):
                return c.cell_contents
        except ValueError:
            pass
    return None


_UNSTABLE = []


def unstable_names():
    """table names whose SET iteration order changes when the set is rebuilt element by element (what deepcopy / pickle do): found by search under
    this process's string hashing, so a renderer that walks the set instead of sorting it shows in a duplicate"""
    if not _UNSTABLE:
        import itertools
        pool = ["orders", "items", "users", "t1", "t2", "t3", "zeta", "alpha", "m", "customers", "lines", "stock", "q", "k", "audit", "log"]
        found = None
        for n in (2, 3, 4, 5):
            for c in itertools.combinations(pool, n):
                s1 = set(c)
                if list(s1) != list(set(list(s1))) or list(s1) != list(set(reversed(list(s1)))):
                    found = c
                    break
            if found:
                break
        _UNSTABLE.extend(found or ("t2", "t1", "zeta"))
    return tuple(_UNSTABLE)


def _auto_labels(fams) -> None:
    """Builder methods of the live package that the hand-written labels above do not reach (a method added after this
    catalogue was written) get labels derived from their signature: every required positional parameter is filled from a
    small palette (field / string / integer / table / criterion) and the first two palettes the method accepts on a fresh
    seed become labels auto#<method>#<k>.  A method no palette satisfies stays uncovered and is reported in the evidence."""
    import pypika_tortoise as P

    have = set()
    inst = {}
    for fam in fams.values():
        for sname, mk in fam.seeds.items():
            try:
                seed = mk()
            except Exception:  # noqa
                continue
            inst[(fam.name, sname)] = seed
            for lab in fam.labels.values():
                have.add(owner(seed, lab.meth))
    gaps = sorted(builder_methods() - have)
    if not gaps:
        return
    t = P.Table("t1")
    palette = [lambda: t.zz, lambda: "zz", lambda: 3, lambda: P.Table("tz"), lambda: t.zz == 1]
    for cls, meth in gaps:
        for fam in fams.values():
            hit = [sn for sn in fam.seeds if (fam.name, sn) in inst and owner(inst[(fam.name, sn)], meth) == (cls, meth)
                   and callable(getattr(inst[(fam.name, sn)], meth, None))]
            if not hit:
                continue
            f = _inner(getattr(type(inst[(fam.name, hit[0])]), meth, None))
            try:
                params = list(inspect.signature(f).parameters.values())[1:] if f else []
            except (TypeError, ValueError):
                params = []
            nreq = sum(1 for q in params if q.default is q.empty and q.kind in (q.POSITIONAL_ONLY, q.POSITIONAL_OR_KEYWORD))
            nreq = nreq or (1 if any(q.kind == q.VAR_POSITIONAL for q in params) else 0)
            found = 0
            for k, mkarg in enumerate(palette if nreq else [None]):
                def fn(r, mkarg=mkarg, meth=meth, nreq=nreq):
                    return getattr(r, meth)(*[mkarg() for _ in range(nreq)])
                try:
                    fn(fam.seeds[hit[0]]())
                except Exception:  # noqa
                    continue
                fam.labels[f"auto#{meth}#{k}"] = Label(f"auto#{meth}#{k}", meth, fn)
                found += 1
                if found == 2:
                    break
