-------------------------------- MODULE J_C08 --------------------------------
(* Judge for C08.  One event per program: its renderings under every        *)
(* dialect class, built natively (all parts with that dialect's classes)    *)
(* and mixed (inner parts with the generic classes).                        *)
(*   e.r[k] = [d, mode, toks, neutral]                                      *)
EXTENDS PT_Dialect, Json, IOUtils
Events == ndJsonDeserialize(IOEnv.TRACE_FILE)
VARIABLE i
Init == i = 1
Conventions == {"identifier-quote", "string-as-identifier", "placeholder", "boolean", "array", "interval", "pagination", "groupby-alias", "string-escape", "set-operand-brackets"}
Slim(toks) == [k \in DOMAIN toks |-> [t |-> toks[k].t, v |-> toks[k].v]]
Verdict(e) ==
    LET R == DOMAIN e.r
        one == {<<e.r[k].d, e.r[k].mode, x>> : k \in R, x \in Conventions} \cap
               UNION {{<<e.r[k].d, e.r[k].mode, x>> : x \in Broken(e.r[k].toks, e.r[k].d, e.boolmark, {e.aliases[a] : a \in DOMAIN e.aliases})
                                                         \cup StringBroken(e.r[k].toks, {e.strings[a] : a \in DOMAIN e.strings})} : k \in R}
        mixed == {<<e.r[k].d, "mixed-differs-from-native">> :
                     k \in {x \in R : e.r[x].mode = "mixed" /\ \E y \in R : e.r[y].d = e.r[x].d /\ e.r[y].mode = "native" /\ e.r[y].toks # e.r[x].toks}}
        pairs == IF ~e.neutral THEN {}
                 ELSE {<<e.r[p[1]].d, e.r[p[2]].d>> : p \in {q \in R \X R : q[1] < q[2] /\ e.r[q[1]].mode = "native" /\ e.r[q[2]].mode = "native"
                                                                 /\ Norm(e.r[q[1]].toks, e.boolmark) # Norm(e.r[q[2]].toks, e.boolmark)}}
    IN [tid |-> e.tid, one |-> one, mixed |-> mixed, pairs |-> pairs]
Next == /\ i <= Len(Events)
        /\ LET v == Verdict(Events[i]) IN IF v.one = {} /\ v.mixed = {} /\ v.pairs = {} THEN TRUE ELSE PrintT("V " \o ToJson(v))
        /\ i' = i + 1
Spec == Init /\ [][Next]_i
=============================================================================
