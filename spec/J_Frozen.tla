------------------------------ MODULE J_Frozen ------------------------------
(* Trace judge for C01 / C15: every recorded execution of a call history    *)
(* must be a behaviour of the builder protocol in which no earlier object   *)
(* changes (Frozen).  An event is one executed history:                     *)
(*   [tid, steps]  steps[k] = [r, l, res, obs]                              *)
(*     r, l : receiver index and call label (as generated from PT_Sharing)  *)
(*     res  : "new" (a new object was returned), "exc" (the call raised),   *)
(*            "same" (the receiver itself came back), "skip" (receiver is   *)
(*            the missing result of a call that raised)                     *)
(*     obs  : observation digests of all live objects AFTER the step, in    *)
(*            creation order (the seed is object 1)                         *)
(*     lin  : "" or the digest the SAME lineage (labels from the seed to the *)
(*            new object) gave when it was executed alone as a chain: what  *)
(*            a call returns depends on the receiver's own history only     *)
(*            (PT_Sharing!Functional)                                       *)
(*   obs0 : digest of the seed before the first call                        *)
(*   mut  : TRUE for histories over a builder created with immutable=False  *)
(*          (PT_Sharing!MCall: the call works on the receiver itself): the  *)
(*          receiver coming back and the receiver's own change are the      *)
(*          protocol, every OTHER object - in particular a duplicate or the *)
(*          original of a duplicate - must still keep its observation       *)
(* The trace spec replays the protocol: after a "new" step the store has    *)
(* grown by exactly one object, otherwise it has not grown; in every step   *)
(* every pre-existing object keeps its observation.                         *)
EXTENDS Naturals, Sequences, FiniteSets, TLC, Json, IOUtils
Events == ndJsonDeserialize(IOEnv.TRACE_FILE)
VARIABLE i
Init == i = 1

RECURSIVE Walk(_, _, _, _, _)
\* prev: observation vector before step k; returns set of <<step, victim, kind>>
Walk(steps, k, prev, acc, mut) ==
    IF k > Len(steps) THEN acc
    ELSE LET st == steps[k]
             \* every call adds one slot: the new object, or "-" when the call raised / was not executable
             shape == IF Len(st.obs) # Len(prev) + 1 \/ ((st.res = "new") # (st.obs[Len(st.obs)] # "-"))
                      THEN {<<k, 0, "store-shape">>} ELSE {}
             isdup == st.l \in {"copy", "deepcopy", "pickle"}
             \* wrap#* labels pass the receiver itself to a new statement: the automatic alias it may be given there is the permitted side effect
             argrecv == st.l \in {"wrap#from", "wrap#join", "wrap#in"}
             same == IF st.res = "same" /\ (~mut \/ isdup) THEN {<<k, st.r, "returned-receiver">>} ELSE {}
             moved == {<<k, v, "changed">> : v \in {x \in 1..Len(prev) : x <= Len(st.obs) /\ st.obs[x] # prev[x] /\ (~mut \/ isdup \/ x # st.r) /\ ~(argrecv /\ x = st.r)}}
             \* C15: a duplication step never raises and its result is observed exactly like its original
             dupbad == IF st.l \notin {"copy", "deepcopy", "pickle"} \/ st.res = "skip" THEN {}
                       ELSE IF st.res # "new" THEN {<<k, st.r, "dup-raises">>}
                       ELSE IF Len(st.obs) = Len(prev) + 1 /\ st.obs[Len(st.obs)] # prev[st.r] THEN {<<k, st.r, "dup-differs">>}
                       ELSE {}
             sibling == IF st.res = "new" /\ st.lin # "" /\ st.obs[Len(st.obs)] # st.lin THEN {<<k, Len(st.obs), "sibling-dependent">>} ELSE {}
         IN Walk(steps, k + 1, st.obs, acc \cup shape \cup same \cup moved \cup dupbad \cup sibling, mut)

Verdict(e) == [tid |-> e.tid, bad |-> Walk(e.steps, 1, <<e.obs0>>, {}, e.mut)]
Next == /\ i <= Len(Events)
        /\ LET v == Verdict(Events[i]) IN IF v.bad = {} THEN TRUE ELSE PrintT("V " \o ToJson(v))
        /\ i' = i + 1
Spec == Init /\ [][Next]_i
=============================================================================
