#!/bin/bash
# runs the thorough tier of the named checks one after the other (used with `vp run`); prints one summary line per check
cd "$(dirname "$0")/.."
rc=0
for c in "$@"; do
  ./check "$c" --tier thorough > "/tmp/thorough-$c.log" 2>&1; r=$?
  echo "== $c exit=$r $(tail -n 1 /tmp/thorough-$c.log)"
  grep -A1 '^VIOLATION' "/tmp/thorough-$c.log" | cut -c1-600 | head -40
  grep -E 'MACHINERY|Traceback|Error' "/tmp/thorough-$c.log" | head -5
  [ $r -ne 0 ] && rc=1
done
exit $rc
