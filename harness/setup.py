"""setup_cmd: verify the toolchain and pre-parse every spec module (nothing is fetched or built)."""
import os
import subprocess
import sys

from harness import tlc


def main() -> int:
    ok = True
    for cmd in (["java", "-version"], ["/venv/bin/python", "-c", "import sqlite3, pypika_tortoise"]):
        p = subprocess.run(cmd, capture_output=True, text=True, env=dict(os.environ, PYTHONPATH="/repo"))
        if p.returncode != 0:
            print("setup: failed:", cmd, p.stderr[-300:])
            ok = False
    mods = sorted(f[:-4] for f in os.listdir(tlc.SPEC_DIR) if f.endswith(".tla"))
    bad = []
    for m in mods:
        p = subprocess.run(["java", "-cp", tlc.JAR, "tla2sany.SANY", m + ".tla"], cwd=tlc.SPEC_DIR,
                           capture_output=True, text=True)
        if p.returncode != 0 or "*** Errors" in p.stdout or "Fatal errors" in p.stdout or "Parse Error" in p.stdout:
            bad.append(m)
            print(p.stdout[-800:])
    print(f"setup: {len(mods)} spec modules parsed, {len(bad)} with errors {bad}")
    return 0 if ok and not bad else 1


if __name__ == "__main__":
    sys.exit(main())
