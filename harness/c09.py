"""C09 - LIMIT/OFFSET render as the dialect's row-limiting clause, values in the right slots.

spec:  PT_Builder (setter semantics: last writer wins per slot; PagTail / PagParams / PagGrammatical per dialect), MC_C09 (generator)
judge: J_C09 (folds the logged calls through the spec, compares the real tail and parameter list)
"""
from __future__ import annotations

import json

from harness import core, lexer, tlc

MSONLY = {"fetch_next", "top"}
KW = {"LIMIT", "OFFSET", "FETCH", "NEXT", "ROWS", "ONLY", "ORDER", "BY", "SELECT"}


def apply(q, c):
    m = c["m"]
    if m in ("limit", "offset", "fetch_next", "top"):
        return getattr(q, m)(c["n"])
    if m == "slice":
        return q[(None if c["start"] < 0 else c["start"]):(None if c["stop"] < 0 else c["stop"])]
    raise core.MachineryError("call " + m)


def payload(toks):
    out = []
    for t in toks:
        if t["t"] == "ph":
            out.append("PH")
        elif t["t"] == "num":
            out.append(t["v"])
        else:
            out.append(t["v"].upper() if t["t"] == "word" else t["v"])
    return out


def strip_prefix(full, base, what):
    if full[:len(base)] != base:
        raise core.MachineryError(f"{what}: base statement is not a prefix: {base} / {full}")
    return full[len(base):]


def observe(Q, d, h, ph):
    """returns (tail payloads, params) of one history under one dialect, inline or parameterised"""
    import pypika_tortoise as P
    from pypika_tortoise.terms import Parameterizer

    t1, t2 = P.Table("t1"), P.Table("t2")
    ld = core.lex_dialect(d)

    def render(o):
        ctx = Q.SQL_CONTEXT
        p = Parameterizer() if ph else None
        sql = o.get_sql(ctx.copy(parameterizer=p)) if ph else o.get_sql(ctx)
        return lexer.lex(sql, ld), (list(p.values) if ph else [])

    def mk(paged):
        q = Q.from_(t1).select(t1.a)
        if h["ordered"] and h["pos"] != "setop":
            q = q.orderby(t1.a)
        if paged and h["pos"] != "setop":
            for c in h["hist"]:
                q = apply(q, c)
        elif h["pos"] != "setop":
            for c in h["hist"]:
                if c["m"] == "top":  # TOP changes the head of the statement, keep it in the base
                    q = apply(q, c)
        if h["pos"] == "top":
            return q
        if h["pos"] == "subquery":
            return Q.from_(q).select("a")
        if h["pos"] == "cte":
            # a value of the OUTER statement follows the CTE's row-limiting values in the parameter list (text order)
            return Q.with_(q, "cq").from_(P.AliasedQuery("cq")).select("a").where(P.Field("a") == OUTER_MARK)
        if h["pos"] == "in-subquery":
            return Q.from_(t2).select(t2.a).where(t2.b == OUTER_MARK - 1).where(t2.a.isin(q)).where(t2.c == OUTER_MARK)
        so = q.union(Q.from_(t2).select(t2.a))
        if h["pos"] == "setop":
            if h["ordered"]:
                so = so.orderby(t1.a)
            if paged:
                for c in h["hist"]:
                    so = apply(so, c)
        return so

    full, params = render(mk(True))
    if h["pos"] in ("cte", "in-subquery") and params:
        # strip the outer statement's own values where the text puts them; anything else is left for the judge to reject
        if h["pos"] == "in-subquery" and params[0] == OUTER_MARK - 1:
            params = params[1:]
        if params and params[-1] == OUTER_MARK:
            params = params[:-1]
    base, _ = render(mk(False))
    fp, bp = payload(full), payload(base)
    if h["pos"] in ("top", "setop"):
        tail = strip_prefix(fp, bp, "top")
    else:
        # the paginated query sits inside the first parenthesised (or, MySQL set operations, bare) operand:
        # common prefix with the base, then everything up to the base's continuation
        k = 0
        while k < len(bp) and k < len(fp) and fp[k] == bp[k]:
            k += 1
        rest = bp[k:]
        if rest and fp[len(fp) - len(rest):] != rest:
            raise core.MachineryError(f"cannot align embedded statement: {bp} / {fp}")
        tail = fp[k:len(fp) - len(rest)] if rest else fp[k:]
    return tail, params


def head_family(rep, tier):
    """DISTINCT and TOP in every call order, with and without the other row-limiting calls: the words between SELECT and the first select item"""
    import itertools
    from harness import execb
    from harness.c11 import gen

    pool = [{"m": "distinct"}, {"m": "top", "n": 5, "bad": False}, {"m": "limit", "n": 3}, {"m": "offset", "n": 2},
            {"m": "orderby", "terms": [{"k": "fld", "src": "T1", "n": "a"}], "dir": ""}, {"m": "where", "crit": {"k": "bin", "op": "=", "l": {"k": "fld", "src": "T1", "n": "b"}, "r": {"k": "num", "n": "1"}}}]
    prefix = [{"m": "from_", "src": "T1"}, {"m": "select", "terms": [{"k": "fld", "src": "T1", "n": "a"}]}]
    events, meta = [], []
    for d, Q in core.query_classes().items():
        for n in (1, 2, 3):
            for calls in itertools.permutations(pool, n):
                if any(c["m"] == "top" for c in calls) and d != "mssql":
                    continue
                if not any(c["m"] in ("distinct", "top") for c in calls):
                    continue
                env = execb.Env(Q)
                q = core.empty_builder(Q)
                exc, head, text = "", [], ""
                try:
                    for c in prefix + list(calls):
                        q = env.apply(q, c)
                    text = str(q)
                    toks = lexer.lex(text, core.lex_dialect(d))
                    k0 = next(k for k, t in enumerate(toks) if t["t"] == "word" and t["v"] == "SELECT")
                    k1 = next(k for k, t in enumerate(toks) if k > k0 and t["t"] == "id")
                    head = [t["v"] for t in toks[k0 + 1:k1]]
                except Exception as ex:  # noqa
                    exc = type(ex).__name__
                events.append({"tid": len(events), "d": d, "hist": prefix + list(calls), "head": head, "exc": exc})
                meta.append((d, [c["m"] for c in calls], text))
    results = tlc.judge_shards("J_HeadGen", "CONSTANT SrcTab <- G_SrcTab\nINIT Init\nNEXT Next\n", events, shard=max(300, len(events) // 8 + 1),
                               extra_files={"J_HeadGen.tla": gen("J_Head")}, timeout=1200)
    rep.add_tlc(results)
    if sum(max(x.distinct - 1, 0) for x in results) != len(events):
        raise core.MachineryError("J_Head did not consume every event")
    for res in results:
        for v in res.json_tagged("V"):
            d, calls, text = meta[v["tid"]]
            rep.discrepancy([["select-head", d, "+".join(sorted(set(calls) & {"distinct", "top"}))]],
                            {"dialect": d, "calls": calls, "sql": text, "expected_head": v["want"], "observed_head": events[v["tid"]]["head"], "error": events[v["tid"]]["exc"]},
                            what="the words between SELECT and the first select item differ from PT_Builder!SelHead")
    return len(events)


OUTER_MARK = 7771


def sqlite_rows(Q, h, ph):
    """execute the ordered top-level SQLite statement on the ten-row table 0..9"""
    import sqlite3

    import pypika_tortoise as P

    t1 = P.Table("t1")
    q = Q.from_(t1).select(t1.a).orderby(t1.a)
    for c in h["hist"]:
        q = apply(q, c)
    con = sqlite3.connect(":memory:")
    try:
        con.execute("CREATE TABLE t1 (a)")
        con.executemany("INSERT INTO t1 VALUES (?)", [(i,) for i in range(10)])
        if ph:
            sql, vals = q.get_parameterized_sql()
            return [r[0] for r in con.execute(sql, vals).fetchall()]
        return [r[0] for r in con.execute(str(q)).fetchall()]
    except sqlite3.Error as ex:
        return [-1]
    finally:
        con.close()


def run(tier: str) -> int:
    rep = core.Report("C09", tier)
    r = tlc.run("MC_C09", "CONSTANTS\nMaxCalls = %d\nSrcTab <- G_SrcTab\nINIT Init\nNEXT Next\nINVARIANT SlotsOK\nINVARIANT Emit\n" % (2 if tier == "quick" else 3),
                workers=8, heap="4g")
    rep.add_tlc(r)
    if r.violation or not r.ok:
        raise core.MachineryError(f"MC_C09: {r.violation}\n{r.raw_tail[-800:]}")
    hs = r.json_tagged("H")
    if len(hs) != r.distinct:
        raise core.MachineryError("generator output incomplete")
    events, meta = [], []
    for d, Q in core.query_classes().items():
        for h in hs:
            if d != "mssql" and any(c["m"] in MSONLY for c in h["hist"]):
                continue
            for ph in (False, True):
                try:
                    tail, params = observe(Q, d, h, ph)
                except core.MachineryError:
                    raise
                except Exception as ex:  # noqa
                    rep.discrepancy([[d, "raises:" + type(ex).__name__, h["pos"]]], {"dialect": d, "history": h}, what="row-limiting call or render raises")
                    continue
                if any(not isinstance(p, int) for p in params):
                    rep.discrepancy([[d, "param-not-plain", h["pos"]]], {"dialect": d, "history": h, "params": repr(params)}, what="non-plain parameter value")
                    continue
                engine, rows = False, []
                if d == "sqlite" and h["pos"] == "top" and h["ordered"] and not (tail and tail[0] == "OFFSET"):
                    engine, rows = True, sqlite_rows(Q, h, ph)
                events.append({"tid": len(events), "d": d, "hist": h["hist"], "ordered": h["ordered"], "ph": ph, "tail": tail, "params": params,
                               "engine": engine, "rows": rows})
                meta.append((d, h, ph))
    results = tlc.judge_shards("J_C09", "CONSTANT SrcTab <- G_SrcTab\nINIT Init\nNEXT Next\n", events, shard=max(500, len(events) // 16 + 1))
    rep.add_tlc(results)
    if sum(max(x.distinct - 1, 0) for x in results) != len(events):
        raise core.MachineryError("J_C09 did not consume every event")
    n_head = head_family(rep, tier)
    rep.extra["select_head_programs"] = n_head
    rep.traces = len(events) + n_head
    rep.evaluations = len(events)
    rep.distinct = {(m[0], json.dumps(m[1], sort_keys=True), m[2]) for m in meta}
    nbad = 0
    for res in results:
        for v in res.json_tagged("V"):
            d, h, ph = meta[v["tid"]]
            nbad += 1
            for fault in sorted(v["bad"]):
                rep.discrepancy([[d, fault, h["pos"]]],
                                {"dialect": d, "position": h["pos"], "ordered": h["ordered"], "calls": h["hist"], "parameterised": ph,
                                 "observed_tail": events[v["tid"]]["tail"], "expected_tail": v["want"], "params": events[v["tid"]]["params"]},
                                what=f"row-limiting clause: {fault}")
    for k in (0, len(meta) // 2, len(meta) - 1):
        rep.sample({"dialect": meta[k][0], "history": meta[k][1], "parameterised": meta[k][2], "tail": events[k]["tail"], "params": events[k]["params"]})
    rep.rule = ("TLC enumerates every sequence of <= N row-limiting setter calls (limit/offset/slice/fetch_next/top, zero and positive values) x with/without "
                "ORDER BY x 4 nesting positions; each is executed under the 6 dialect classes inline and parameterised; TLC folds the logged calls through "
                "PT_Builder and compares the real tail and parameter list with PagTail/PagParams")
    rep.exhaustive = True
    rep.extra["events_with_discrepancy"] = nbad
    return rep.finish()


def replay(path: str) -> int:
    ex = json.load(open(path))["example"]
    print(json.dumps(ex, indent=1))
    Q = core.query_classes()[ex["dialect"]]
    h = {"hist": ex["calls"], "pos": ex["position"], "ordered": ex["ordered"]}
    print("now:", observe(Q, ex["dialect"], h, ex["parameterised"]))
    return 0
