------------------------------- MODULE MC_C08 -------------------------------
(* Generator for C08: a dialect-sensitive element inside every nesting      *)
(* construct, at depth 1 and 2.                                             *)
EXTENDS PT_Dialect, Json
Elements == {"quoted-names", "placeholder", "boolean", "array", "interval", "interval-dialect-kw", "pagination", "groupby-alias", "string-value", "alias", "backslash-string", "json-value", "user-parameter"}
Constructs == {"top", "subquery-from", "subquery-join", "subquery-in", "subquery-select", "cte", "setop-base", "setop-operand", "insert-select", "create-as",
               \* a select as an operand of a term of the outer statement: function argument, comparison operand, CASE result
               "function-arg", "function-arg-orderby", "cmp-operand", "case-result",
               \* the set operation's own ORDER BY; the INSERT whose row source the statement is, with and without an alias on the target
               "setop-base-ordered", "insert-select-aliased-target", "setop-other-class-operand"}
VARIABLES elem, c1, c2
Init == elem \in Elements /\ c1 \in Constructs /\ c2 \in Constructs \cup {"none"}
Next == UNCHANGED <<elem, c1, c2>>
\* the element is inside construct c1, which (depth 2) is itself inside c2
Emit == PrintT("P " \o ToJson([elem |-> elem, nest |-> IF c2 = "none" THEN <<c1>> ELSE <<c1, c2>>]))
\* the conventions differ between at least two dialects for every convention (the product is not vacuous)
Distinct == \A f \in {"idq", "ph", "bool", "array", "ivl", "wrap", "pag", "gba", "esc"} : \E a, b \in Dialects : Conv[a][f] # Conv[b][f]
=============================================================================
