----------------------------- MODULE PT_Dialect -----------------------------
(***************************************************************************)
(* Property C08: one dialect's conventions govern the whole statement tree. *)
(*   Conv[d]        identifier quote, placeholder style, boolean / array /  *)
(*                  interval literal forms, set-operand wrapping, row       *)
(*                  limiting vocabulary                                     *)
(*   OneDialect     every convention-bearing token, at every depth, follows *)
(*                  Conv[d]                                                 *)
(*   Norm           the token stream with those conventions erased: the     *)
(*                  renderings of one dialect-neutral program under any two *)
(*                  dialects are equal after Norm                           *)
(* Tokens [t, v, q] come from the dialect's lexer (q = quote character,     *)
(* "" for none).                                                            *)
(***************************************************************************)
EXTENDS Naturals, Sequences, FiniteSets, TLC

Dialects == {"generic", "sqlite", "mysql", "postgresql", "mssql", "oracle"}
Conv == [d \in Dialects |->
    [ idq   |-> IF d = "mysql" THEN "`" ELSE "\"",
      ph    |-> IF d = "postgresql" THEN "numbered" ELSE IF d = "mysql" THEN "%s" ELSE "?",
      bool  |-> IF d = "sqlite" THEN "either" ELSE "word",        \* SQLite writes 1 / 0 and (since 3.23) also accepts TRUE / FALSE
      array |-> IF d = "postgresql" THEN "ARRAY[" ELSE "[",
      ivl   |-> IF d \in {"mysql", "oracle"} THEN "out" ELSE "in", \* INTERVAL '1' DAY  vs  INTERVAL '1 DAY'
      wrap  |-> d # "mysql",                                      \* set operands in brackets
      pag   |-> IF d \in {"mssql", "oracle"} THEN "fetch" ELSE "limit",
      gba   |-> d \notin {"mssql", "oracle"},                     \* GROUP BY may name a select alias
      esc   |-> IF d = "mysql" THEN "backslash" ELSE "none" ]]     \* a backslash inside a string literal is written twice (MySQL reads \x as an escape)

Units == {"YEAR", "MONTH", "DAY", "HOUR", "MINUTE", "SECOND", "MICROSECOND", "WEEK", "QUARTER"}

RECURSIVE PhNumbered(_, _, _)
PhNumbered(toks, i, k) ==
    IF i > Len(toks) THEN TRUE
    ELSE IF toks[i].t = "ph" THEN toks[i].v = "$" \o ToString(k) /\ PhNumbered(toks, i + 1, k + 1)
    ELSE PhNumbered(toks, i + 1, k)

\* the set of conventions a token stream breaks under dialect d
Broken(toks, d, boolmark, aliases) ==
    LET c == Conv[d] IN
       {"identifier-quote" : i \in {x \in DOMAIN toks : toks[x].t = "id" /\ toks[x].q # c.idq}}
  \cup {"string-as-identifier" : i \in {x \in DOMAIN toks : d = "mysql" /\ toks[x].t = "str" /\ toks[x].q = "\""}}
  \cup (IF c.ph = "numbered" THEN (IF PhNumbered(toks, 1, 1) THEN {} ELSE {"placeholder"})
        ELSE {"placeholder" : i \in {x \in DOMAIN toks : toks[x].t = "ph" /\ toks[x].v # c.ph}})
  \cup {"boolean" : i \in {x \in DOMAIN toks : c.bool = "word" /\ toks[x].t = "num" /\ toks[x].v = boolmark}}
  \cup {"array" : i \in {x \in DOMAIN toks : toks[x].t = "punct" /\ toks[x].v = "[" /\
                            ((c.array = "ARRAY[") # (x > 1 /\ toks[x - 1].t = "word" /\ toks[x - 1].v = "ARRAY"))}}
  \cup {"interval" : i \in {x \in DOMAIN toks : toks[x].t = "word" /\ toks[x].v = "INTERVAL" /\ x + 1 <= Len(toks) /\ toks[x + 1].t = "str" /\
                            ((c.ivl = "out") # (x + 2 <= Len(toks) /\ toks[x + 2].t = "word" /\ toks[x + 2].v \in Units))}}
  \cup {"groupby-alias" : i \in {x \in DOMAIN toks : ~c.gba /\ toks[x].t = "word" /\ toks[x].v = "GROUP" /\ x + 2 <= Len(toks)
                            /\ toks[x + 1].v = "BY" /\ toks[x + 2].t = "id" /\ toks[x + 2].v \in aliases}}
  \cup {"set-operand-brackets" : i \in {x \in DOMAIN toks : toks[x].t = "word" /\ toks[x].v \in {"UNION", "INTERSECT", "EXCEPT", "MINUS"} /\
                            LET y == IF x + 1 <= Len(toks) /\ toks[x + 1].t = "word" /\ toks[x + 1].v = "ALL" THEN x + 2 ELSE x + 1 IN
                            y <= Len(toks) /\ ((toks[y].t = "punct" /\ toks[y].v = "(") # c.wrap)}}
  \cup {"pagination" : i \in {x \in DOMAIN toks : toks[x].t = "word" /\
                            ((c.pag = "fetch" /\ toks[x].v = "LIMIT") \/ (c.pag = "limit" /\ toks[x].v = "FETCH"))}}

\* string literals (other than the text of an INTERVAL) that do not read back, under the dialect's own escape rule (the lexer
\* applies Conv[d].esc), as one of the values the program contains
StringBroken(toks, strings) ==
    {"string-escape" : i \in {x \in DOMAIN toks : strings # {} /\ toks[x].t = "str" /\ toks[x].v \notin strings
                                                 /\ ~(x > 1 /\ toks[x - 1].t = "word" /\ toks[x - 1].v = "INTERVAL")}}

\* ---- normalisation: erase the conventions
NormTok(tk, boolmark) ==
    IF tk.t = "id" THEN [t |-> "id", v |-> tk.v]
    ELSE IF tk.t = "ph" THEN [t |-> "ph", v |-> "PH"]
    ELSE IF tk.t = "word" /\ tk.v = "TRUE" THEN [t |-> "bool", v |-> "T"]
    ELSE IF tk.t = "num" /\ tk.v = boolmark THEN [t |-> "bool", v |-> "T"]
    ELSE [t |-> tk.t, v |-> tk.v]
RECURSIVE NormFrom(_, _, _)
NormFrom(toks, i, bm) ==
    IF i > Len(toks) THEN <<>>
    ELSE LET tk == toks[i] IN
    IF tk.t = "word" /\ tk.v = "ARRAY" /\ i + 1 <= Len(toks) /\ toks[i + 1].v = "[" THEN NormFrom(toks, i + 1, bm)
    ELSE IF tk.t = "word" /\ tk.v = "INTERVAL" /\ i + 2 <= Len(toks) /\ toks[i + 1].t = "str" /\ toks[i + 2].t = "word" /\ toks[i + 2].v \in Units
         THEN << [t |-> "interval", v |-> toks[i + 1].v \o " " \o toks[i + 2].v] >> \o NormFrom(toks, i + 3, bm)
    ELSE IF tk.t = "word" /\ tk.v = "INTERVAL" /\ i + 1 <= Len(toks) /\ toks[i + 1].t = "str"
         THEN << [t |-> "interval", v |-> toks[i + 1].v] >> \o NormFrom(toks, i + 2, bm)
    ELSE << NormTok(tk, bm) >> \o NormFrom(toks, i + 1, bm)
Norm(toks, bm) == NormFrom(toks, 1, bm)
=============================================================================
