"""C17 - equality and hashing of tables, schemas and queries are coherent; field/table collection is complete.

spec:  PT_Eq (laws over recorded matrices; FieldsOf/TablesOf), MC_Eq (generator of table variants and expression trees)
judge: J_Eq
"""
from __future__ import annotations

import json

from harness import c06, core, tlc


def build_variant(v):
    import pypika_tortoise as P
    from pypika_tortoise.queries import Database, Schema

    sch = {"none": None, "str": "s", "list": ["d", "s"], "obj": Schema("s"), "nested": Database("d").s}[v["schema"]]
    q = {"generic": P.Query, "mysql": P.MySQLQuery}[v["qcls"]]
    if v.get("path") == "derived":
        t = P.Table(v["name"], schema=sch, query_cls=q)
        try:
            hash(t), str(t), {t: 1}, str(q.from_(t).select(t.star))  # the base has a history before it is derived from
        except TypeError:
            pass  # (an unhashable table is a verdict of the universe below - PT_Eq!Unhash - not a reason to stop)
        if v["alias"]:
            t = t.as_(v["alias"])
    else:
        t = P.Table(v["name"], schema=sch, alias=v["alias"] or None, query_cls=q)
    if v["temporal"] == "for":
        t = t.for_(P.SYSTEM_TIME.as_of("2020-01-01"))
    elif v["temporal"] == "portion":
        t = t.for_portion(P.SYSTEM_TIME.from_to("2020-01-01", "2020-02-01"))
    return t


def shape(v):
    return f"{v['schema']}/{'alias' if v['alias'] else 'noalias'}/{v['temporal']}/{v['qcls']}/{v.get('path', 'ctor')}"


def safe_hash(o):
    try:
        return str(hash(o))
    except TypeError:
        return "unhashable"


def member(container_factory, a, b):
    try:
        c = container_factory(a)
        return "t" if b in c else "f"
    except TypeError:
        return "unhashable"


def join_decision(fa, fb):
    """the library's own membership decision when a table is joined: an un-aliased joined table that IS already a source of the statement gets
    an automatic alias.  't' / 'f' = it did / did not; 'n/a' = the joined table carries an alias (or the join is refused)"""
    import pypika_tortoise as P

    a, b = fa(), fb()
    if not isinstance(b, P.Table) or not isinstance(a, P.Table) or b.alias is not None:
        return "n/a"
    try:
        P.Query.from_(a).join(b).on(a.x == b.x)
    except Exception:  # noqa
        return "n/a"
    return "t" if b.alias is not None else "f"


def universe(objs, tid, render=True, factories=None, carriers=()):
    n = len(objs)
    joinalias = [[join_decision(factories[i], factories[j]) if factories else "n/a" for j in range(n)] for i in range(n)]
    eq = [[bool(objs[i] == objs[j]) for j in range(n)] for i in range(n)]
    ne = [[bool(objs[i] != objs[j]) for j in range(n)] for i in range(n)]
    h = [safe_hash(o) for o in objs]
    inset = [[member(lambda a: {a}, objs[i], objs[j]) for j in range(n)] for i in range(n)]
    indict = [[member(lambda a: {a: 1}, objs[i], objs[j]) for j in range(n)] for i in range(n)]
    inlist = [[member(lambda a: [a], objs[i], objs[j]) for j in range(n)] for i in range(n)]
    if render:
        ctxs = core.contexts()
        for o in objs:
            for ctx in ctxs.values():
                try:
                    o.get_sql(ctx)
                except Exception:  # noqa
                    pass
            str(o)
        # statements that merely CONTAIN objects of the universe (as a source, an operand) are rendered too: rendering the container
        # must not change the equality / hash of what it contains either
        for c in carriers:
            for ctx in ctxs.values():
                try:
                    c.get_sql(ctx)
                except Exception:  # noqa
                    pass
            try:
                str(c)
            except Exception:  # noqa
                pass
    eq2 = [[bool(objs[i] == objs[j]) for j in range(n)] for i in range(n)]
    h2 = [safe_hash(o) for o in objs]
    return {"tid": tid, "kind": "universe", "eq": eq, "ne": ne, "h": h, "inset": inset, "indict": indict, "inlist": inlist, "eq2": eq2, "h2": h2, "joinalias": joinalias}


def build_tree(t, tables):
    if t["k"] == "fld":
        from pypika_tortoise import Field

        return Field(t["n"], table=tables[t["src"]]) if t.get("src") else Field(t["n"])
    if t["k"] == "bin":
        import operator

        l, r = build_tree(t["l"], tables), build_tree(t["r"], tables)
        return {"=": operator.eq, "+": operator.add, "AND": operator.and_}[t["op"]](l, r)
    if t["k"] == "num":
        from pypika_tortoise.terms import ValueWrapper

        return ValueWrapper(int(t["n"]))
    if t["k"] == "call":
        from pypika_tortoise import analytics as an
        from pypika_tortoise import functions as fn
        from pypika_tortoise.terms import Function

        args = [build_tree(x, tables) for x in t["args"]]
        special = {"AN:MEDIAN": lambda: an.Median(*args), "AN:SUM": lambda: an.Sum(*args), "AN:LAG": lambda: an.Lag(args[0], 1, args[1]),
                   "AGG:COUNT": lambda: fn.Count(*args), "FN:UPPER": lambda: fn.Upper(*args), "FN:CAST": lambda: fn.Cast(args[0], "INT"),
                   "FN:COALESCE": lambda: fn.Coalesce(*args), "FN:NULLIF": lambda: fn.NullIf(*args)}
        return special[t["f"]]() if t["f"] in special else Function(t["f"], *args)
    if t["k"] == "in":
        return build_tree(t["a"], tables).isin([build_tree(x, tables) for x in t["items"]])
    if t["k"] == "between":
        return build_tree(t["a"], tables).between(build_tree(t["lo"], tables), build_tree(t["hi"], tables))
    if t["k"] == "case":
        from pypika_tortoise import Case

        return Case().when(build_tree(t["w"], tables), build_tree(t["t"], tables)).else_(build_tree(t["e"], tables))
    raise core.MachineryError("tree kind " + t["k"])


def carriers_of(objs):
    """statements that hold the builders / aliased queries of a universe the ways a user can put them there: from_(), join(), IN, select list,
    and replace_table(table, subquery), which puts a subquery into FROM without going through from_()"""
    import pypika_tortoise as P

    t, w = P.Table("t"), P.Table("w")
    out = []
    for o in objs:
        if not callable(getattr(type(o), "union", None)) and type(o).__name__ != "AliasedQuery":
            continue
        for mk in (lambda: P.Query.from_(w).select(w.a).where(w.a.isin(o)), lambda: P.Query.from_(w).select(w.a, o),
                   lambda: P.Query.from_(t).select(t.a).where(t.b == 1).replace_table(t, o),
                   lambda: P.Query.from_(w).join(t).on(w.a == t.a).select(w.a).replace_table(t, o)):
            try:
                out.append(mk())
            except Exception:  # noqa
                pass
    return out


def other_universes():
    """(label, [objects], [shape labels]) for schemas, aliased queries, builders"""
    import pypika_tortoise as P
    from pypika_tortoise.queries import AliasedQuery, Database, Schema

    t, u = P.Table("t"), P.Table("u")
    q1 = P.Query.from_(t).select(t.a)
    out = []
    out.append(("schema", [Schema("s"), Schema("s"), Schema("r"), Schema("s", parent=Schema("d")), Database("d").s, Database("d"), Schema("d")],
                ["plain", "plain", "other", "nested", "nested", "database", "plain-d"]))
    out.append(("aliasedquery", [AliasedQuery("a"), AliasedQuery("a"), AliasedQuery("a", q1), AliasedQuery("b", q1), AliasedQuery("b")],
                ["bare", "bare", "with-query", "with-query-b", "bare-b"]))
    bs, sh = [], []
    for alias in (None, "x", "y"):
        for frm in ("t", "u", "tu"):
            for extra in ("", "where"):
                q = P.Query.from_(t) if frm != "u" else P.Query.from_(u)
                if frm == "tu":
                    q = q.from_(u)
                q = q.select("a")
                if extra:
                    q = q.where(t.a == 1)
                if alias:
                    q = q.as_(alias)
                bs.append(q)
                sh.append(f"alias={alias}/from={frm}/{extra or 'plain'}")
    out.append(("querybuilder", bs, sh))
    # objects of DIFFERENT kinds that share a visible name: equality must stay symmetric / transitive / hash-coherent across kinds too
    q2 = P.Query.from_(u).select(u.a)
    out.append(("cross-kind", [P.Table("a"), P.Table("x", alias="a"), AliasedQuery("a"), AliasedQuery("a", q1), q1.as_("a"), q2.as_("a"), Schema("a"),
                               P.Table("a", schema="a"), Database("a"), P.Table("a").for_(P.SYSTEM_TIME.as_of("2020-01-01"))],
                ["table", "table-aliased-a", "aliasedquery", "aliasedquery-with-query", "builder-as-a", "builder2-as-a", "schema", "table-in-schema-a",
                 "database", "table-temporal"]))
    return out


def run(tier: str) -> int:
    rep = core.Report("C17", tier)
    r = tlc.run("MC_Eq", "INIT Init\nNEXT Next\nINVARIANT Emit\nINVARIANT OrderFree\n", workers=8, heap="4g")
    rep.add_tlc(r)
    if r.violation or not r.ok:
        raise core.MachineryError(f"MC_Eq: {r.violation}\n{r.raw_tail[-800:]}")
    variants = sorted(r.json_tagged("X"), key=lambda v: json.dumps(v, sort_keys=True))
    trees = r.json_tagged("T")
    events, meta = [], []
    # table universes: per name all 60 variants (transitivity needs the whole class), and a mixed one
    for name in ("t", "u"):
        vs = [v for v in variants if v["name"] == name]
        events.append(universe([build_variant(v) for v in vs], len(events), factories=[(lambda v=v: build_variant(v)) for v in vs]))
        meta.append(("Table", [shape(v) for v in vs]))
    mixed = [v for v in variants if v["temporal"] != "portion" and v["schema"] in ("none", "str", "obj")]
    events.append(universe([build_variant(v) for v in mixed], len(events), factories=[(lambda v=v: build_variant(v)) for v in mixed]))
    meta.append(("Table", [shape(v) for v in mixed]))
    for label, objs, shapes in other_universes():
        events.append(universe(objs, len(events), carriers=carriers_of(objs)))
        meta.append((label, shapes))
    import pypika_tortoise as P

    tables = {"t": P.Table("t"), "u": P.Table("u"), "v": P.Table("v"), "e1": P.Table("emp", alias="e1"), "e2": P.Table("emp", alias="e2"),
              "s1i": P.Table("item", schema="s1"), "s2i": P.Table("item", schema="s2")}

    def src_of(tb):
        """the source id of a table object found in the expression (the very objects the tree was built from)"""
        if tb is None:
            return ""
        for k, v in tables.items():
            if v is tb:
                return k
        for k, v in tables.items():
            if v == tb and str(v) == str(tb):
                return k
        return "?" + str(tb)
    for t in trees:
        term = build_tree(t["tree"], tables)
        try:
            fields = sorted({(src_of(f.table), f.name) for f in term.fields_()})
            tabs = sorted({src_of(x) for x in term.tables_})
        except Exception as ex:  # noqa
            raise core.MachineryError(f"fields_/tables_ raised on {t['tree']}: {ex!r}")
        events.append({"tid": len(events), "kind": "tree", "tree": t["tree"], "fields": [list(f) for f in fields], "tables": tabs})
        meta.append(("tree", t))
    # the same trees with a history: every node hashed and collected first, then re-targeted with replace_table and combined with the original
    # (a hash or a collection remembered from before the re-targeting must not survive it)
    from pypika_tortoise.terms import Function

    tables["w"] = P.Table("w")

    def retarget(x):
        if isinstance(x, dict):
            return {k: ("w" if k == "src" and v == "t" else retarget(v)) for k, v in x.items()}
        if isinstance(x, list):
            return [retarget(v) for v in x]
        return x
    for t in trees[:: (2 if tier == "quick" else 1)]:
        if any(k in json.dumps(t["tree"]) for k in ('"in"', '"between"')):
            continue  # replace_table does not reach IN items / BETWEEN bounds (findings of C16): the re-targeted twin would not be what the tree says
        term = build_tree(t["tree"], tables)
        try:
            for nd in term.nodes_():
                try:
                    hash(nd)
                except TypeError:
                    pass
            term.fields_(), term.tables_, str(term)
            term2 = term.replace_table(tables["t"], tables["w"])
            combo = Function("PAIR", term, term2)
            fields = sorted({(src_of(f.table), f.name) for f in combo.fields_()})
            tabs = sorted({src_of(x) for x in combo.tables_})
        except Exception as ex:  # noqa
            raise core.MachineryError(f"history over {t['tree']} raised: {ex!r}")
        ctree = {"k": "call", "f": "PAIR", "args": [t["tree"], retarget(t["tree"])]}
        events.append({"tid": len(events), "kind": "tree", "tree": ctree, "fields": [list(f) for f in fields], "tables": tabs})
        meta.append(("tree", {"tree": ctree, "history": "hashed, collected, replace_table(t -> w), combined with the original"}))
    results = tlc.judge_shards("J_Eq", "INIT Init\nNEXT Next\n", events, shard=max(50, len(events) // 16 + 1), heap="4g", timeout=3000)
    rep.add_tlc(results)
    if sum(max(x.distinct - 1, 0) for x in results) != len(events):
        raise core.MachineryError("J_Eq did not consume every event")
    rep.traces = len(events)
    rep.evaluations = sum(len(e["eq"]) ** 2 if e["kind"] == "universe" else 1 for e in events)
    rep.distinct = {json.dumps(m[1], sort_keys=True)[:200] for m in meta}
    for res in results:
        for v in res.json_tagged("V"):
            kind, info = meta[v["tid"]]
            if kind == "tree":
                for b in v["bad"]:
                    tree = info["tree"]
                    hist = ["after-replace_table"] if info.get("history") else []
                    inner = tree["args"][0] if hist else tree
                    rep.discrepancy([[b[0], "collection", inner["k"] + (":" + inner.get("op", "") if inner["k"] == "bin" else "")] + hist],
                                    {"tree": tree, "expected_count": b[1], "recorded": events[v["tid"]][b[0]], "history": info.get("history", "")},
                                    what=f"{b[0]}_ does not return every distinct reference of the expression")
                continue
            seen = set()
            for law, i, j in sorted(v["bad"]) + sorted(v["unhashable"]):
                si, sj = info[i - 1], info[j - 1]
                sig = [kind, law] + ([] if kind != "Table" else [_pair_shape(si, sj)])
                key = json.dumps(sig)
                if key in seen:
                    continue
                seen.add(key)
                rep.discrepancy([sig], {"class": kind, "law": law, "a": si, "b": sj}, what=f"{kind}: {law}")
    rep.sample({"universe": "Table name=t", "variants": meta[0][1][:5], "size": len(meta[0][1])})
    rep.sample({"tree": trees[0]["tree"], "expected_fields": trees[0]["fields"]})
    rep.rule = ("TLC generates the cross product of table constructions (2 names x 5 schema forms x alias x 3 temporal x 2 query classes x 2 construction paths = 240) "
                f"and {len(trees)} expression trees over fields of 3 tables with overlapping column names in every operand order; the executor records "
                "== / != / hash / set, dict, list membership matrices before and after rendering, and fields_()/tables_; TLC evaluates the laws (all pairs and "
                "triples) and compares with FieldsOf/TablesOf")
    rep.exhaustive = True
    return rep.finish()


def _pair_shape(a, b):
    """what differs between the two variant shapes"""
    pa, pb = a.split("/"), b.split("/")
    names = ["schema", "alias", "temporal", "qcls", "path"]
    diff = [f"{n}:{x}~{y}" for n, x, y in zip(names, pa, pb) if x != y]
    return ",".join(diff) or "same-construction"


def replay(path: str) -> int:
    print(json.dumps(json.load(open(path))["example"], indent=1))
    return 0
