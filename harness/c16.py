"""C16 - replace_table replaces every reference and nothing else.

spec:  PT_Terms!Replace (intended, recursive) with ReplaceComplete checked by TLC on every generated tree (MC_Eq)
judge: J_Replace - three real renderings per template: replaced, rebuilt-with-new, receiver before/after
"""
from __future__ import annotations

import json

from harness import c17, core, lexer, tlc


def term_templates():
    """name -> f(T, O) building a term that refers to table T at the slot under test and to O elsewhere"""
    import pypika_tortoise as P
    from pypika_tortoise import analytics as an
    from pypika_tortoise import functions as fn
    from pypika_tortoise.enums import Boolean, DatePart, Equality
    from pypika_tortoise.terms import (All, AtTimezone, Bracket, NestedCriterion, Negative, Not, PeriodCriterion, Tuple, Values,
                                       ValueWrapper)

    F = lambda T, c="a": P.Field(c, table=T)  # noqa
    tt = {
        "Field": lambda T, O: F(T),
        "Star": lambda T, O: P.terms.Star(T),
        "Tuple": lambda T, O: Tuple(F(O, "o"), F(T)),
        "Array": lambda T, O: P.Array(F(T), F(O, "o")),
        "Bracket": lambda T, O: Bracket(F(T) + 1),
        "BasicCriterion.left": lambda T, O: F(T) == F(O, "o"),
        "BasicCriterion.right": lambda T, O: F(O, "o") == F(T),
        "ContainsCriterion.term": lambda T, O: F(T).isin([1, 2]),
        "ContainsCriterion.container": lambda T, O: F(O, "o").isin([F(T), 2]),
        "BetweenCriterion.term": lambda T, O: F(T).between(1, 2),
        "BetweenCriterion.start": lambda T, O: F(O, "o").between(F(T), 2),
        "BetweenCriterion.end": lambda T, O: F(O, "o").between(1, F(T)),
        "PeriodCriterion.term": lambda T, O: F(T).from_to(1, 2),
        "PeriodCriterion.start": lambda T, O: F(O, "o").from_to(F(T), 2),
        "BitwiseAndCriterion.term": lambda T, O: F(T).bitwiseand(4),
        "NullCriterion": lambda T, O: F(T).isnull(),
        "ComplexCriterion.left": lambda T, O: (F(T) == 1) & (F(O, "o") == 2),
        "ComplexCriterion.right": lambda T, O: (F(O, "o") == 2) | (F(T) == 1),
        "ArithmeticExpression.left": lambda T, O: F(T) + F(O, "o"),
        "ArithmeticExpression.right": lambda T, O: F(O, "o") * F(T),
        "ArithmeticExpression.deep": lambda T, O: (F(O, "o") + 1) * (F(T) - 2),
        "Case.when": lambda T, O: P.Case().when(F(T) == 1, 2).else_(3),
        "Case.then": lambda T, O: P.Case().when(F(O, "o") == 1, F(T)).else_(3),
        "Case.else": lambda T, O: P.Case().when(F(O, "o") == 1, 2).else_(F(T)),
        "Not": lambda T, O: Not(F(T) == 1),
        "Not.isin": lambda T, O: F(T).notin([1, 2]),
        "All": lambda T, O: All(F(T)),
        "Negative": lambda T, O: Negative(F(T)),
        "Function.arg": lambda T, O: fn.Coalesce(F(O, "o"), F(T)),
        "Function.nested": lambda T, O: fn.Upper(fn.Concat(F(T), "x")),
        "Function.star": lambda T, O: fn.Count(P.terms.Star(T)) + F(O, "o"),
        "Function.star_nested": lambda T, O: fn.Coalesce(fn.Count(P.terms.Star(T)), F(O, "o")),
        "Function.field_and_star": lambda T, O: P.terms.Function("F2", F(T), P.terms.Star(T)),
        "AggregateFunction.arg": lambda T, O: fn.Sum(F(T)),
        "AggregateFunction.filter": lambda T, O: fn.Sum(F(O, "o")).filter(F(T) == 1),
        "AnalyticFunction.arg": lambda T, O: an.Sum(F(T)).over(F(O, "o")),
        "AnalyticFunction.partition": lambda T, O: an.Rank().over(F(T)),
        "AnalyticFunction.orderby": lambda T, O: an.Rank().orderby(F(T)),
        "NestedCriterion": lambda T, O: NestedCriterion(Equality.eq, Boolean.and_, F(T), F(O, "o"), F(T, "b")),
        "Values": lambda T, O: Values(F(T)),
        "AtTimezone": lambda T, O: AtTimezone(F(T), "UTC"),
        "ValueWrapper.term": lambda T, O: ValueWrapper(F(T)),
        "Extract": lambda T, O: fn.Extract(DatePart.year, F(T)),
        "Cast": lambda T, O: fn.Cast(F(T), "INT"),
        "Pow": lambda T, O: F(T) ** 2,
        "Mod": lambda T, O: F(T) % 2,
        "Interval.arith": lambda T, O: F(T) + P.Interval(days=1),
        "JSON.op": lambda T, O: F(T).get_json_value("k"),
        # an independently aliased twin of the OLD table's name (self-join): it is another source and stays
        "BasicCriterion.twin": lambda T, O: F(T, "boss") == F(P.Table("told").as_("mgr"), "id"),
        "Function.twin": lambda T, O: fn.Coalesce(F(P.Table("told").as_("mgr"), "n"), F(T)),
    }
    return tt


def stmt_templates():
    """name -> f(Q, T, O) building a statement (joined with O so that qualifiers are printed)"""
    import pypika_tortoise as P
    from pypika_tortoise import functions as fn

    F = lambda T, c="a": P.Field(c, table=T)  # noqa
    O2 = P.Table("o2")

    def base(Q, T, O):
        return Q.from_(T).join(O).on(F(T) == F(O, "o"))

    st = {
        "select.from": lambda Q, T, O: base(Q, T, O).select(F(O, "o")),
        "select.field": lambda Q, T, O: base(Q, T, O).select(F(T), F(O, "o")),
        "select.star": lambda Q, T, O: base(Q, T, O).select(T.star),
        "select.where": lambda Q, T, O: base(Q, T, O).select(F(O, "o")).where(F(T, "w") == 1),
        "select.prewhere": lambda Q, T, O: base(Q, T, O).select(F(O, "o")).prewhere(F(T, "w") == 1),
        "select.groupby": lambda Q, T, O: base(Q, T, O).select(fn.Count("*")).groupby(F(T, "g")),
        "select.having": lambda Q, T, O: base(Q, T, O).select(fn.Count("*")).groupby(F(O, "o")).having(fn.Sum(F(T, "h")) > 1),
        "select.orderby": lambda Q, T, O: base(Q, T, O).select(F(O, "o")).orderby(F(T, "s")),
        "select.join_item": lambda Q, T, O: Q.from_(O).join(T).on(F(O, "o") == F(T, "j")).select(F(O, "o")),
        "select.join_on": lambda Q, T, O: Q.from_(O).from_(T).join(O2).on(F(O2, "z") == F(T)).select(F(O, "o")),
        "select.join_cross_item": lambda Q, T, O: Q.from_(O).join(T).cross().select(F(O, "o")),
        "select.join_using": lambda Q, T, O: Q.from_(O).join(T).using("k").select(F(O, "o")),
        "select.from_second": lambda Q, T, O: Q.from_(O).from_(T).select(F(O, "o")),
        "select.subquery_from": lambda Q, T, O: Q.from_(Q.from_(T).select(F(T)).as_("sq")).join(O).cross().select("a"),
        "select.subquery_where": lambda Q, T, O: base(Q, O, O2).select(F(O, "o")).where(F(O, "o").isin(Q.from_(T).join(O2).cross().select(F(T)))),
        "select.subquery_select": lambda Q, T, O: base(Q, O, O2).select(F(O, "o"), Q.from_(O2).select(fn.Max(F(T))).where(F(O2, "z") == F(T, "y")).as_("m")),
        "select.cte": lambda Q, T, O: Q.with_(Q.from_(T).join(O2).cross().select(F(T)), "c1").from_(P.AliasedQuery("c1")).join(O).cross().select("a"),
        "select.setop": lambda Q, T, O: base(Q, O, O2).select(F(O, "o")).union(Q.from_(T).join(O2).cross().select(F(T))),
        "select.case": lambda Q, T, O: base(Q, T, O).select(P.Case().when(F(O, "o") == 1, F(T)).else_(0)),
        # single-source statements whose WHERE names a table outside FROM (the renderer then qualifies columns): replacing may fold the two
        "select.where_foreign": lambda Q, T, O: Q.from_(O).select(F(O, "o")).where(F(T, "w") == 1),
        "select.source_where_foreign": lambda Q, T, O: Q.from_(T).select(F(T)).where(F(O, "w") == 1),
        "update.where_foreign": lambda Q, T, O: Q.update(O).set(F(O, "x"), 1).where(F(T, "w") == 1),
        "delete.where_foreign": lambda Q, T, O: Q.from_(T).delete().where(F(O, "w") == 1),
        "select.prewhere_foreign": lambda Q, T, O: Q.from_(O).select(F(O, "o")).prewhere(F(T, "w") == 1),
        "select.selfjoin_twin": lambda Q, T, O: (lambda M: Q.from_(T).join(M).on(F(T, "boss") == F(M, "id")).select(F(T), F(M, "n")).where(F(M, "w") == 1))(
            P.Table("told").as_("mgr")),
        "insert.table": lambda Q, T, O: Q.into(T).insert(1),
        "insert.select": lambda Q, T, O: Q.into(O).from_(T).join(O2).cross().select(F(T)),
        "insert.columns": lambda Q, T, O: Q.into(T).columns(F(T, "c")).insert(1),
        # several VALUES rows, the reference not in the first one / not in the first position
        "insert.values_later_row": lambda Q, T, O: Q.into(O).insert(1, 2).insert(F(T), 3).insert(4, F(T, "y") + 1),
        "insert.values_first_row": lambda Q, T, O: Q.into(O).insert(F(T), 2).insert(3, 4),
        "update.table": lambda Q, T, O: Q.update(T).join(O).on(F(T) == F(O, "o")).set(F(T, "x"), 1),
        "update.set_value": lambda Q, T, O: Q.update(O).join(T).on(F(T) == F(O, "o")).set(F(O, "x"), F(T, "v")),
        "update.where": lambda Q, T, O: Q.update(O).join(O2).on(F(O2, "z") == F(O, "o")).set(F(O, "x"), 1).where(F(T, "w") == 1),
        "delete.from": lambda Q, T, O: Q.from_(T).join(O).on(F(T) == F(O, "o")).delete().where(F(T, "w") == 1),
    }
    pg = {
        "pg.returning": lambda Q, T, O: Q.update(T).join(O).on(F(T) == F(O, "o")).set(F(T, "x"), 1).returning(F(T, "r")),
        "pg.distinct_on": lambda Q, T, O: base(Q, T, O).distinct_on(F(T, "d")).select(F(O, "o")),
        "pg.on_conflict_target": lambda Q, T, O: Q.into(T).insert(1).on_conflict(F(T, "k")).do_nothing(),
        "pg.on_conflict_update_value": lambda Q, T, O: Q.into(O).insert(1).on_conflict("k").do_update("v", F(T, "nv")),
    }
    return st, pg


def _hashed(t):
    hash(t), str(t), {t: 1}
    return t


def pairs():
    import pypika_tortoise as P

    return {
        "plain->plain": lambda: (P.Table("told"), P.Table("tnew")),
        "aliased->plain": lambda: (P.Table("told", alias="ao"), P.Table("tnew")),
        "as_()->plain": lambda: (_hashed(P.Table("told")).as_("ao"), P.Table("tnew")),   # the alias given by as_() to a table that was already hashed / rendered
        "plain->aliased": lambda: (P.Table("told"), P.Table("tnew", alias="an")),
        "schema->plain": lambda: (P.Table("told", schema="s1"), P.Table("tnew")),
        "plain->other-source": lambda: (P.Table("told"), P.Table("oth")),   # the new table IS the statement's other table
        "none->plain": lambda: (None, P.Table("tnew")),                     # fields without a table are given one (terms only)
    }


def toks(text, d):
    return lexer.slim(lexer.lex(text, core.lex_dialect(d)))


def run(tier: str) -> int:
    import pypika_tortoise as P

    rep = core.Report("C16", tier)
    # design level: the intended Replace is complete on every generated tree and source pair
    r = tlc.run("MC_Eq", "INIT Init\nNEXT Next\nINVARIANT ReplaceOK\n", workers=8, heap="4g")
    rep.add_tlc(r)
    if r.violation or not r.ok:
        raise core.MachineryError(f"intended Replace is not complete (spec bug): {r.violation}\n{r.raw_tail[-800:]}")
    ctx_ns = core.contexts()["generic"].copy(with_namespace=True)
    events, meta = [], []
    O = P.Table("oth")
    for pname, mk in pairs().items():
        for tname, f in term_templates().items():
            if pname == "plain->other-source":
                continue
            told, tnew = mk()
            try:
                recv = f(told, O)
                r0 = recv.get_sql(ctx_ns)
                rep_t = recv.replace_table(told, tnew)
                r_rep = rep_t.get_sql(ctx_ns)
                # a second look at the replaced term (its field / table walk, then another rendering): it is a finished value, not a one-shot
                list(rep_t.fields_()), rep_t.tables_
                r_rep2 = rep_t.get_sql(ctx_ns)
                r1 = recv.get_sql(ctx_ns)
                r_ref = f(tnew, O).get_sql(ctx_ns)
            except Exception as ex:  # noqa
                rep.discrepancy([["term", tname, "raises:" + type(ex).__name__]], {"template": tname, "pair": pname}, what="replace_table or rendering raises")
                continue
            events.append({"tid": len(events), "rep": toks(r_rep, "generic"), "ref": toks(r_ref, "generic"), "recv0": toks(r0, "generic"),
                           "recv1": toks(r1, "generic"), "oldnames": ["told", "ao"]})
            meta.append(("term", tname, pname, r_rep, r_ref))
            if r_rep2 != r_rep:
                events.append({"tid": len(events), "rep": toks(r_rep2, "generic"), "ref": toks(r_ref, "generic"), "recv0": toks(r0, "generic"),
                               "recv1": toks(r1, "generic"), "oldnames": ["told", "ao"]})
                meta.append(("term", tname, pname + " (second rendering of the replaced term)", r_rep2, r_ref))
        st, pg = stmt_templates()
        for d, Q in core.query_classes().items():
            if tier == "quick" and d in ("mssql", "oracle"):
                continue
            tmpl = dict(st)
            if d == "postgresql":
                tmpl.update(pg)
            for sname, f in tmpl.items():
                if pname == "none->plain":
                    continue  # (a statement is built over a table; re-targeting its un-tabled fields is the term-level case)
                if pname == "plain->other-source" and "foreign" not in sname:
                    continue  # (joining a table to itself is given an automatic alias at join time: rebuilt and replaced legitimately differ)
                told, tnew = mk()
                try:
                    recv = f(Q, told, O)
                    r0 = str(recv)
                    rep_q = recv.replace_table(told, tnew)
                    r_rep = str(rep_q)
                    r_rep2 = str(rep_q)
                    r1 = str(recv)
                    r_ref = str(f(Q, tnew, O))
                except Exception as ex:  # noqa
                    rep.discrepancy([["stmt", sname, "raises:" + type(ex).__name__]], {"template": sname, "pair": pname, "dialect": d},
                                    what="replace_table or rendering raises")
                    continue
                events.append({"tid": len(events), "rep": toks(r_rep, d), "ref": toks(r_ref, d), "recv0": toks(r0, d), "recv1": toks(r1, d),
                               "oldnames": ["told", "ao"]})
                meta.append(("stmt", sname, pname + "/" + d, r_rep, r_ref))
                if r_rep2 != r_rep:
                    events.append({"tid": len(events), "rep": toks(r_rep2, d), "ref": toks(r_ref, d), "recv0": toks(r0, d), "recv1": toks(r1, d),
                                   "oldnames": ["told", "ao"]})
                    meta.append(("stmt", sname, pname + "/" + d + " (second rendering of the replaced statement)", r_rep2, r_ref))
    results = tlc.judge_shards("J_Replace", "INIT Init\nNEXT Next\n", events, shard=max(100, len(events) // 16 + 1))
    rep.add_tlc(results)
    if sum(max(x.distinct - 1, 0) for x in results) != len(events):
        raise core.MachineryError("J_Replace did not consume every event")
    rep.traces = len(events)
    rep.evaluations = len(events)
    rep.distinct = {(m[0], m[1], m[2]) for m in meta}
    for res in results:
        for v in res.json_tagged("V"):
            kind, name, pname, r_rep, r_ref = meta[v["tid"]]
            for fault in v["bad"]:
                rep.discrepancy([[kind, name, fault]], {"template": name, "pair": pname, "replaced": r_rep, "rebuilt_with_new": r_ref},
                                what=f"replace_table: {fault}")
    for k in (0, len(meta) // 2, len(meta) - 1):
        rep.sample({"kind": meta[k][0], "template": meta[k][1], "pair": meta[k][2], "replaced": meta[k][3], "rebuilt": meta[k][4]})
    rep.rule = (f"{len(term_templates())} term templates (every Term subclass with a table slot, each operand position) and {len(st) + len(pg)} statement "
                "clause-slot templates x 4 (old,new) pairs x dialect builders; replaced vs rebuilt-with-new vs receiver, compared as token streams by TLC")
    rep.exhaustive = True
    return rep.finish()


def replay(path: str) -> int:
    print(json.dumps(json.load(open(path))["example"], indent=1))
    return 0
