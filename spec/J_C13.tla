-------------------------------- MODULE J_C13 --------------------------------
(* Judge for C13.  One event per call MULTISET: all recorded permutations.  *)
(*   e.orders[k] = [perm, calls, excs, text, clauses, balanced]             *)
(*     text    : digest of the rendered statement ("" = empty string)       *)
(*     clauses : depth-0 clause keywords found in the real token stream     *)
(* (a) every order whose calls all succeed: the clause sequence equals the  *)
(*     spec's ClauseSeq of the folded state; brackets balanced; an          *)
(*     incomplete state renders the empty string                            *)
(* (b) orders that keep the relative order of the calls WITHIN each clause  *)
(*     render the same text (calls addressing different clauses commute;    *)
(*     repeated calls to one clause accumulate in call order)               *)
EXTENDS PT_Builder, Json, IOUtils
Events == ndJsonDeserialize(IOEnv.TRACE_FILE)
VARIABLE i
Init == i = 1
ClauseOf(c) == CASE c.m \in {"select", "selectstr", "distinct"} -> "SELECT" [] c.m = "from_" -> "FROM" [] c.m = "where" -> "WHERE"
                 [] c.m = "prewhere" -> "PREWHERE" [] c.m = "groupby" -> "GROUP BY" [] c.m = "having" -> "HAVING" [] c.m \in {"orderby", "orderbystr"} -> "ORDER BY" [] c.m = "groupbystr" -> "GROUP BY"
                 [] c.m \in {"limit", "fetch_next"} -> "LIMIT" [] c.m = "offset" -> "OFFSET" [] c.m = "join" -> "JOIN" [] c.m = "into" -> "INTO"
                 [] c.m \in {"insert", "replace"} -> "VALUES" [] c.m = "columns" -> "COLUMNS" [] c.m = "update" -> "UPDATE" [] c.m = "set" -> "SET"
                 [] c.m = "delete" -> "DELETE" [] c.m \in {"on_conflict", "do_nothing", "do_update"} -> "ON CONFLICT" [] c.m = "returning" -> "RETURNING" [] OTHER -> c.m
\* the calls of one order grouped per clause (relative order kept)
\* (o.calls = fixed family prefix, then one call per element of o.perm)
PLen(o) == Len(o.calls) - Len(o.perm)
Key(o) == [cl \in {ClauseOf(o.calls[k]) : k \in DOMAIN o.calls} |->
             SelectSeq(o.perm, LAMBDA p : ClauseOf(o.calls[PLen(o) + (CHOOSE k \in DOMAIN o.perm : o.perm[k] = p)]) = cl)]
Clean(o) == \A k \in DOMAIN o.excs : o.excs[k] = ""
SpecClean(o) == \A k \in DOMAIN o.calls : RaiseSeq(Empty, o.calls)[k] = ""
Form(e, o) ==
    LET b == Fold(Empty, o.calls)  want == ClauseSeq(b, e.d) IN
    (IF o.clauses # want THEN {<<"clauses", o.perm>>} ELSE {})
    \cup (IF ~o.balanced THEN {<<"unbalanced", o.perm>>} ELSE {})
    \cup (IF ~Complete(b) /\ o.text # "" THEN {<<"fragment", o.perm>>} ELSE {})
Verdict(e) ==
    LET ok == {k \in DOMAIN e.orders : Clean(e.orders[k]) /\ SpecClean(e.orders[k]) /\ e.orders[k].rexc = ""}
        form == UNION {Form(e, e.orders[k]) : k \in ok}
        comm == {<<"order-dependent", e.orders[p[1]].perm, e.orders[p[2]].perm>> :
                   p \in {q \in ok \X ok : q[1] < q[2] /\ Key(e.orders[q[1]]) = Key(e.orders[q[2]]) /\ e.orders[q[1]].text # e.orders[q[2]].text}}
    IN [tid |-> e.tid, form |-> form, comm |-> comm]
Next == /\ i <= Len(Events)
        /\ LET v == Verdict(Events[i]) IN IF v.form = {} /\ v.comm = {} THEN TRUE ELSE PrintT("V " \o ToJson(v))
        /\ i' = i + 1
Spec == Init /\ [][Next]_i
=============================================================================
