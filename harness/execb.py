"""Executor for PT_Builder call histories: builds the real objects a call record denotes and applies the
calls to a real builder.  Sources (tables, subqueries, CTE references) are declared once in SOURCES and exported
to the specification as the SrcTab operator, so both sides talk about the same objects."""
from __future__ import annotations

import operator

from harness import core

# id -> (kind, name, alias, schema)
SOURCES = {
    "T1": ("table", "t1", "", ""),
    "T2": ("table", "t2", "", ""),
    "T5": ("table", "t5", "", ""),
    "A3": ("table", "t3", "A3", ""),
    "S4": ("table", "t4", "", "s4"),
    "T1b": ("table", "t1", "", ""),       # a second, equal Table("t1") object
    "T1f": ("table", "t1", "", ""),       # Table("t1").for_(...) - equal to T1, temporal clause
    "A1": ("table", "t1", "A1", ""),      # the same table under an alias
    "Q6": ("subq", "q6", "q6", ""),       # an aliased subquery
    "C7": ("cte", "c7", "c7", ""),        # a CTE reference (AliasedQuery)
    "D1": ("table", "t4", "", "d1.s4"),   # one table name and one innermost schema name under two parent databases
    "D2": ("table", "t4", "", "d2.s4"),
    "Q9": ("subq", "q9", "", ""),         # two subqueries WITHOUT an alias (a join gives the joined one an automatic sqN alias)
    "Q10": ("subq", "q10", "", ""),
    "U8": ("setop", "u8", "u8", ""),      # an aliased set operation (UNION of two selects) used as a source
}


def srctab_tla() -> str:
    arms = " [] ".join('s = "%s" -> [kind |-> "%s", name |-> "%s", alias |-> "%s", schema |-> "%s"]' % (k, v[0], v[1], v[2], v[3])
                       for k, v in SOURCES.items())
    return "G_SrcTab(s) == CASE " + arms + ' [] OTHER -> [kind |-> "none", name |-> "", alias |-> "", schema |-> ""]\n'


def _ext():
    """opaque term classes built by class name (C12: every Term subclass honours its alias)"""
    import pypika_tortoise as P
    from pypika_tortoise import analytics as an
    from pypika_tortoise import functions as fn
    from pypika_tortoise.enums import DatePart
    from pypika_tortoise.terms import All, AtTimezone, Bracket, LiteralValue, NullValue, PseudoColumn, Tuple, Values

    return {
        "Tuple": lambda e: Tuple(e.src["T1"].b, 1),
        "Array": lambda e: P.Array(1, 2),
        "Bracket": lambda e: Bracket(e.src["T1"].b + 1),
        "JSON": lambda e: P.JSON({"k": 1}),
        "LiteralValue": lambda e: LiteralValue("LIT"),
        "NullValue": lambda e: NullValue(),
        "PseudoColumn": lambda e: PseudoColumn("ROWNUM"),
        "Parameter": lambda e: P.Parameter("?"),
        "AtTimezone": lambda e: AtTimezone(e.src["T1"].b, "UTC"),
        "BitwiseAndCriterion": lambda e: e.src["T1"].b.bitwiseand(2),
        "All": lambda e: All(e.src["T1"].b),
        "Index": lambda e: P.Index("ix"),
        "AggregateFilter": lambda e: fn.Sum(e.src["T1"].b).filter(e.src["T1"].c == 1),
        "Count": lambda e: fn.Count("*"),
        "AnalyticFunction": lambda e: an.Rank().over(e.src["T1"].b),
        "WindowFrame": lambda e: an.Sum(e.src["T1"].b).over(e.src["T1"].c).rows(an.Preceding(1)),
        "Subquery": lambda e: e.Q.from_(e.src["T2"]).select(fn.Max(e.src["T2"].a)),
        "Cast": lambda e: fn.Cast(e.src["T1"].b, "INT"),
        "Extract": lambda e: fn.Extract(DatePart.year, e.src["T1"].b),
        "Mod": lambda e: e.src["T1"].b % 2,
        "Pow": lambda e: e.src["T1"].b ** 2,
        "JSONop": lambda e: e.src["T1"].b.get_json_value("k"),
        "Like": lambda e: e.src["T1"].b.like("x%"),
        "Xor": lambda e: (e.src["T1"].b == 1) ^ (e.src["T1"].c == 2),
    }


EXT = None


def _vext():
    """value-bearing term classes (C04): built from a class name and a list of (pairwise distinct) constants"""
    import pypika_tortoise as P
    from pypika_tortoise import analytics as an
    from pypika_tortoise import functions as fn
    from pypika_tortoise.terms import Negative, Not, Tuple

    def t1(e):
        return e.src["T1"]
    return {
        "AggFilter": (2, lambda e, v: fn.Sum(t1(e).b * v[0]).filter(t1(e).c == v[1])),
        "AggFilter2": (3, lambda e, v: fn.Sum(t1(e).b + v[0]).filter(t1(e).c == v[1]).filter(t1(e).a > v[2])),
        "CountFilter": (2, lambda e, v: fn.Count(P.Case().when(t1(e).b == v[0], 1)).filter(t1(e).c != v[1])),
        "AnalyticFilter": (2, lambda e, v: an.Sum(t1(e).b * v[0]).filter(t1(e).a == v[1]).over(t1(e).c)),
        "WindowOrder": (3, lambda e, v: an.Sum(t1(e).b + v[0]).over(t1(e).c + v[1]).orderby(t1(e).a + v[2])),
        "Bitand": (2, lambda e, v: t1(e).b.bitwiseand(v[0]) == v[1]),
        "Like": (1, lambda e, v: t1(e).b.like(str(v[0]))),
        "JsonGet": (2, lambda e, v: t1(e).b.get_json_value(str(v[0])) == v[1]),
        "Mod": (2, lambda e, v: (t1(e).b % v[0]) + v[1]),
        "Pow": (2, lambda e, v: (t1(e).b ** v[0]) - v[1]),
        "Cast": (1, lambda e, v: fn.Cast(P.terms.ValueWrapper(v[0]), "TEXT")),
        "Tuple": (2, lambda e, v: Tuple(t1(e).b, v[0]) == Tuple(t1(e).c, v[1])),
        "Not": (1, lambda e, v: Not(t1(e).b == v[0])),
        "Neg": (1, lambda e, v: Negative(t1(e).b + v[0])),
        "NestedCase": (5, lambda e, v: P.Case().when(t1(e).b == v[0], P.Case().when(t1(e).c == v[1], v[2]).else_(v[3])).else_(v[4])),
        "Func3": (2, lambda e, v: fn.Concat(v[0], t1(e).b, v[1])),
        "Substring": (2, lambda e, v: fn.Substring(t1(e).b, v[0], v[1])),
        "NotIn": (2, lambda e, v: t1(e).b.notin([v[0], v[1]])),
        "IsinSubquery": (2, lambda e, v: t1(e).b.isin(e.Q.from_(e.src["T2"]).select(e.src["T2"].a + v[0]).where(e.src["T2"].b == v[1]))),
        "XorChain": (3, lambda e, v: (t1(e).b == v[0]) ^ (t1(e).c == v[1]) ^ (t1(e).a == v[2])),
    }


VEXT = None


class Env:
    """fresh objects for one execution under one dialect class"""

    def __init__(self, Q):
        import pypika_tortoise as P

        global EXT
        if EXT is None:
            EXT = _ext()

        self.Q = Q
        self.P = P
        self.rejected_effects = []
        self.src = {}
        for k, (kind, name, alias, schema) in SOURCES.items():
            if kind == "table":
                self.src[k] = P.Table(name, alias=alias or None, schema=(tuple(schema.split(".")) if "." in schema else schema) or None)
        self.src["T1f"] = P.Table("t1").for_(P.SYSTEM_TIME.as_of("2020-01-01"))
        self.src["Q6"] = Q.from_(P.Table("t6")).select("a", "b", "c").as_("q6")
        self.src["C7"] = P.AliasedQuery("c7")
        self.src["Q9"] = Q.from_(P.Table("t9")).select("a", "b")
        self.src["Q10"] = Q.from_(P.Table("t10")).select("a", "b")
        self.src["U8"] = (Q.from_(P.Table("t8")).select("a", "b") + Q.from_(P.Table("t9")).select("a", "b")).as_("u8")

    def term(self, t):
        P = self.P
        from pypika_tortoise import functions as fn
        from pypika_tortoise.terms import Function, Negative, Not, ValueWrapper

        k = t["k"]
        al = t.get("al") or None
        if k == "fld":
            r = P.Field(t["n"], table=self.src[t["src"]]) if t.get("src") else P.Field(t["n"])
        elif k == "star":
            r = self.src[t["src"]].star if t.get("src") else P.terms.Star()
        elif k == "num":
            r = ValueWrapper(int(t["n"]))
        elif k == "str":
            r = ValueWrapper(t["n"])
        elif k == "flt":
            r = ValueWrapper(float(t["n"]))
        elif k == "noparam":
            # a constant the caller exempts from parameterisation: it stays a literal in both renderings and is in no value list
            r = ValueWrapper(int(t["n"]) if t["n"].isdigit() else t["n"], allow_parametrize=False)
        elif k == "bool":
            r = ValueWrapper(bool(t["v"]))
        elif k == "arr":
            r = P.Array(*[int(x["n"]) for x in t["items"]])
        elif k == "arrn":
            vs = [int(x["n"]) for x in t["items"]]
            r = P.Array(vs[0], None, *vs[1:])
        elif k == "bin":
            l, rr = self.term(t["l"]), self.term(t["r"])
            r = {"=": operator.eq, "<>": operator.ne, "<": operator.lt, ">": operator.gt, "+": operator.add, "-": operator.sub,
                 "*": operator.mul, "/": operator.truediv, "AND": operator.and_, "OR": operator.or_}[t["op"]](l, rr)
        elif k == "neg":
            r = Negative(self.term(t["a"]))
        elif k == "not":
            r = Not(self.term(t["a"]))
        elif k == "isnull":
            r = self.term(t["a"]).isnull()
        elif k == "in":
            r = self.term(t["a"]).isin([self.term(x) for x in t["items"]])
        elif k == "between":
            r = self.term(t["a"]).between(self.term(t["lo"]), self.term(t["hi"]))
        elif k == "call":
            args = [self.term(x) for x in t["args"]]
            cls = {"SUM": fn.Sum, "MAX": fn.Max, "COUNT": fn.Count, "UPPER": fn.Upper, "COALESCE": fn.Coalesce, "ABS": fn.Abs, "CONCAT": fn.Concat,
                   "MIN": fn.Min, "AVG": fn.Avg, "LOWER": fn.Lower, "LENGTH": fn.Length, "SUBSTRING": fn.Substring, "CAST_INT": lambda x: fn.Cast(x, "INT")}.get(t["f"])
            if t["f"] == "COUNT" and not args:
                args = ["*"]
            r = cls(*args) if cls else Function(t["f"], *args)
            if t.get("dist"):
                r = r.distinct()
        elif k == "case":
            c0 = P.Case().when(self.term(t["w"]), self.term(t["t"]))
            c0.when(P.Field("a") == P.Field("a"), 0), c0.else_(P.Field("a"))   # discarded sibling continuations of the CASE
            r = c0.else_(self.term(t["e"]))
        elif k == "win":
            from pypika_tortoise import analytics as an

            def plain(x):
                # (the offset / bucket arguments of LAG, LEAD, NTILE are plain Python values in the API)
                return int(x["n"]) if x["k"] == "num" else x["n"] if x["k"] == "str" else self.term(x)
            f = {"SUM": an.Sum, "ROW_NUMBER": lambda: an.RowNumber(), "RANK": lambda: an.Rank(), "DENSE_RANK": lambda: an.DenseRank(), "MAX": an.Max, "COUNT": an.Count,
                 "FIRST_VALUE": an.FirstValue, "LAST_VALUE": an.LastValue}.get(t["f"])
            if t["f"] in ("LAG", "LEAD", "NTILE"):
                cls = {"LAG": an.Lag, "LEAD": an.Lead, "NTILE": an.NTile}[t["f"]]
                r = cls(*([self.term(t["args"][0])] if t["f"] != "NTILE" else []), *[plain(x) for x in t["args"][(1 if t["f"] != "NTILE" else 0):]])
            else:
                r = f(*[self.term(x) for x in t["args"]])

            def siblings(w):
                # sibling windows derived from the same intermediate term and thrown away: what they partition / order by must not reach w
                # (real columns: SQLite reads an unknown double-quoted name as a string constant, which would change nothing)
                w.over(P.Field("b"), P.Field("a"))
                w.orderby(P.Field("c"), P.Field("b"))
            siblings(r)
            if t["part"] and t.get("sep"):
                for x in t["part"]:
                    r = r.over(self.term(x))
                    siblings(r)
            elif t["part"]:
                r = r.over(*[self.term(x) for x in t["part"]])
                siblings(r)
            for x in t["ord"]:
                r = r.orderby(self.term(x))
                siblings(r)
            if t.get("frame"):
                def bound(b):
                    if b[0] == "C":
                        return an.CURRENT_ROW
                    cls = an.Preceding if b[0] == "P" else an.Following
                    return cls() if b[1] < 0 else cls(b[1])
                fr = t["frame"]
                args = [bound(fr["lo"])] + ([bound(fr["hi"])] if fr["hi"] else [])
                r = (r.rows if fr["unit"] == "ROWS" else r.range)(*args)
        elif k == "ext":
            r = EXT[t["cls"]](self)
        elif k == "vext":
            global VEXT
            if VEXT is None:
                VEXT = _vext()
            conv = {"num": lambda x: int(x["n"]), "str": lambda x: x["n"], "flt": lambda x: float(x["n"])}
            r = VEXT[t["cls"]][1](self, [conv[x["k"]](x) for x in t["vals"]])
        else:
            raise core.MachineryError("term kind " + k)
        if al:
            r = r.as_(al)
        return r

    def apply(self, q, c):
        """apply one call record to builder q (None = the Query class entry point); returns the new builder"""
        from pypika_tortoise.enums import JoinType, Order

        m = c["m"]
        tgt = q if q is not None else self.Q
        if m == "from_":
            return tgt.from_(self.src[c["src"]])
        if m == "select":
            return tgt.select(*[self.term(t) for t in c["terms"]])
        if m == "selectstr":
            return tgt.select(c["name"])
        if m in ("where", "prewhere", "having"):
            return getattr(tgt, m)(self.term(c["crit"]))
        if m == "groupby":
            return tgt.groupby(*[self.term(t) for t in c["terms"]])
        if m == "orderby":
            kw = {"order": {"ASC": Order.asc, "DESC": Order.desc}[c["dir"]]} if c.get("dir") else {}
            return tgt.orderby(*[self.term(t) for t in c["terms"]], **kw)
        if m == "orderbystr":
            return tgt.orderby(c["name"])
        if m == "groupbystr":
            return tgt.groupby(c["name"])
        if m == "join":
            how = {"": JoinType.inner, "LEFT": JoinType.left, "CROSS": JoinType.cross}[c.get("how", "")]
            j = tgt.join(self.src[c["item"]], how)
            if c["kind"] == "on":
                return j.on(self.term(c["crit"]))
            if c["kind"] == "using":
                return j.using(*c["cols"])
            return j.cross()
        if m in ("limit", "offset", "top", "fetch_next"):
            return getattr(tgt, m)(c["n"])
        if m == "slice":
            return tgt[(None if c["start"] < 0 else c["start"]):(None if c["stop"] < 0 else c["stop"])]
        if m == "distinct":
            return tgt.distinct()
        if m == "into":
            return tgt.into(self.src[c["src"]])
        if m == "update":
            return tgt.update(self.src[c["src"]])
        if m == "delete":
            return tgt.delete()
        if m == "columns":
            return tgt.columns(*c["names"])
        if m in ("insert", "replace"):
            return getattr(tgt, m)(*[self.term(t) for t in c["row"]])
        if m == "set":
            return tgt.set(c["col"], self.term(c["val"]))
        if m == "setf":
            return tgt.set(self.term(c["f"]), self.term(c["val"]))
        if m == "columnsf":
            return tgt.columns(self.term(c["f"]))
        if m == "returning":
            return tgt.returning(*[self.term(t) for t in c["terms"]])
        if m == "for_update":
            return tgt.for_update()
        if m in ("force_index", "use_index"):
            return getattr(tgt, m)(c["name"])
        if m == "on_conflict":
            return tgt.on_conflict(*c["names"])
        if m == "do_nothing":
            return tgt.do_nothing()
        if m == "do_update":
            return tgt.do_update(c["col"], self.term(c["val"]) if c.get("val") else None)
        if m == "dialect_own":
            # the clause only this dialect's builder class has (nothing where the class adds none)
            if callable(getattr(type(tgt), "modifier", None)):
                return tgt.modifier("SQL_CALC_FOUND_ROWS").modifier("HIGH_PRIORITY")
            if callable(getattr(type(tgt), "distinct_on", None)):
                return tgt.distinct_on(self.src["T1"].a, "c")
            if callable(getattr(type(tgt), "top", None)):
                return tgt.top(5)
            return tgt
        if m == "hints":
            return tgt.force_index("ix1").use_index("ix2").for_update(nowait=True).with_totals()
        if m == "with_":
            return tgt.with_(self.Q.from_(self.P.Table("t7")).select("a"), c["name"])
        raise core.MachineryError("call " + m)

    def decoys(self, q):
        """derive and discard siblings from q: what one continuation does must not influence another (the guards
        and the rendering of a builder are functions of its own ancestry chain)"""
        P = self.P
        # fresh argument objects: the library may write an automatic alias into a table / subquery that is passed in
        # (the one side effect C01 permits), which must not reach the objects the program under test uses
        s = {k: (P.Table(SOURCES[k][1], alias=SOURCES[k][2] or None, schema=SOURCES[k][3] or None) if SOURCES[k][0] == "table" else v)
             for k, v in self.src.items()}
        s["Q6"] = self.Q.from_(P.Table("t6")).select("a", "b", "c").as_("q6")
        for f in (lambda: q.join(s["T2"]).on(s["T2"].a == s["T2"].b), lambda: q.join(s["T5"]).cross(), lambda: q.join(s["A3"]).using("a"),
                  lambda: q.join(s["Q6"]).on(s["Q6"].a == s["Q6"].b), lambda: q.from_(s["T5"]), lambda: q.from_(s["C7"]),
                  lambda: q.where(s["T2"].a == 1), lambda: q.select(s["T1"].z), lambda: q.select("*"), lambda: q.with_(self.Q.from_(P.Table("t7")).select("a"), "c7"),
                  lambda: q.into(s["T2"]), lambda: q.update(s["T2"]), lambda: q.delete(), lambda: q.insert(9), lambda: q.on_conflict("z"),
                  lambda: q.do_nothing(), lambda: q.do_update("z", 1), lambda: q.groupby(s["T1"].a), lambda: q.orderby(s["T1"].a),
                  lambda: q.limit(1), lambda: q.set("z", 1), lambda: q.columns("z"), lambda: q.distinct(),
                  lambda: q.select(s["T1"].zz.as_("ala"), s["T1"].zy.as_("alx"), s["T1"].zx.as_("aly"), s["T1"].zw.as_("alb")),
                  lambda: q.groupby(s["T1"].zz.as_("ala")), lambda: q.orderby(s["T1"].zz.as_("alx")), lambda: q.having(s["T1"].zz == 1),
                  lambda: q.offset(1), lambda: q.for_update(), lambda: q.force_index("zi"), lambda: q.use_index("zj")):
            try:
                f()
            except Exception:  # noqa
                pass

    def run(self, calls, start=None, decoys=False):
        """apply a history; returns (final builder, [exception class or "" per call])"""
        # every history starts from the dialect's empty builder (what Query.from_/into/update/select create first)
        q = start if start is not None else core.empty_builder(self.Q)
        excs = []
        for c in calls:
            if decoys:
                self.decoys(q)
                # ... and every intermediate builder is rendered (str, every dialect context, parameterised) before it is continued:
                # rendering is an observation, nothing it computes may be remembered into later builders
                try:
                    str(q)
                    for ctx in core.contexts().values():
                        q.get_sql(ctx)
                    q.get_parameterized_sql()
                except Exception:  # noqa
                    pass
            # what a REJECTED call leaves behind: the argument sources as they were (a refused join must not have aliased its table)
            # (tables only: an un-aliased SUBQUERY receives its automatic sqN alias when it is handed to join(), before the condition is seen -
            #  the side effect on an argument that C01 permits)
            before = {k: v.__dict__.get("alias") for k, v in self.src.items() if SOURCES.get(k, ("",))[0] == "table"}
            try:
                q2 = self.apply(q, c)
                excs.append("")
                q = q2
            except core.MachineryError:
                raise
            except Exception as ex:  # noqa
                excs.append(type(ex).__name__)
                after = {k: v.__dict__.get("alias") for k, v in self.src.items() if SOURCES.get(k, ("",))[0] == "table"}
                if after != before:
                    self.rejected_effects.append({"call": c, "error": type(ex).__name__, "changed": sorted(k for k in before if before[k] != after.get(k))})
        return q, excs
