------------------------------- MODULE J_Meta -------------------------------
(* Judge for the behaviours of PT_Meta: events recorded from the real code. *)
(*   [kind |-> "agg",  tree, obs]            obs = "T" | "F" | "N"          *)
(*   [kind |-> "fold", parts, st, ids]       st = "E" | "ok" | "unrenderable", ids = criteria of the rendered conjunction *)
EXTENDS PT_Meta, Json, IOUtils
Events == ndJsonDeserialize(IOEnv.TRACE_FILE)
VARIABLE i
Init == i = 1
(*   [kind |-> "paths", ids]                 ids = the texts (digests) of the four render paths of one statement          *)
(*   [kind |-> "window", over, ord, frames, st, ids]   ids = the word / number tokens after the function's own brackets     *)
(*   [kind |-> "group", hist, st, ids]       ids = the tokens of the GROUP BY clause to the end of the statement            *)
(*   [kind |-> "path", route, names, alias, ids, eq]   ids = the identifiers of the FROM clause, eq = equal to + hashes like the kw_obj table *)
(*   [kind |-> "loadq", hist, ids]            ids = the word / string / identifier / comma tokens of the statement                    *)
Ok(e) == IF e.kind = "loadq" THEN LoadOutcome(e.hist) = e.ids
         ELSE IF e.kind = "path" THEN RouteApplies(e.route, Len(e.names)) /\ TablePath(e.route, e.names, e.alias) = [ids |-> e.ids, eq |-> e.eq]
         ELSE IF e.kind = "group" THEN GroupOutcome(e.hist) = [st |-> e.st, ids |-> e.ids]
         ELSE IF e.kind = "window" THEN WindowCall(e.over, e.ord, e.frames) = [st |-> e.st, ids |-> e.ids]
         ELSE IF e.kind = "agg" THEN IsAgg(e.tree) = e.obs
         ELSE IF e.kind = "paths" THEN PathsAgree(e.ids)
         ELSE IF e.kind = "custom" THEN CustomCall(e.parts[1], e.parts[2]) = [st |-> e.st, ids |-> e.ids]
         ELSE FoldCrit(e.parts) = [st |-> e.st, ids |-> e.ids]
WantStr(e) == IF e.kind = "loadq" THEN ToJson(LoadOutcome(e.hist))
              ELSE IF e.kind = "path" THEN ToJson(TablePath(e.route, e.names, e.alias))
              ELSE IF e.kind = "group" THEN ToJson(GroupOutcome(e.hist))
              ELSE IF e.kind = "window" THEN ToJson(WindowCall(e.over, e.ord, e.frames))
              ELSE IF e.kind = "agg" THEN IsAgg(e.tree) ELSE IF e.kind = "paths" THEN "one-text"
              ELSE IF e.kind = "custom" THEN CustomCall(e.parts[1], e.parts[2]).st ELSE FoldCrit(e.parts).st
Next == /\ i <= Len(Events)
        /\ IF Ok(Events[i]) THEN TRUE ELSE PrintT("V " \o ToJson([tid |-> Events[i].tid, want |-> WantStr(Events[i])]))
        /\ i' = i + 1
Spec == Init /\ [][Next]_i
=============================================================================
