-------------------------------- MODULE J_Ddl --------------------------------
(* Judge for the CREATE TABLE family of C13: one event per call multiset,   *)
(*   e.orders[k] = [perm, calls, excs, rexc, text, seq, balanced]           *)
(* (a) keyword / name sequence of the real statement = DSeq of the folded   *)
(*     calls, balanced, "" while incomplete; (b) one text for all orders    *)
(*     that keep the relative order within each clause.                     *)
EXTENDS PT_Ddl, Json, IOUtils
Events == ndJsonDeserialize(IOEnv.TRACE_FILE)
VARIABLE i
Init == i = 1
Key(o) == [cl \in {DClauseOf(o.calls[k]) : k \in DOMAIN o.calls} |->
             SelectSeq(o.perm, LAMBDA p : DClauseOf(o.calls[CHOOSE k \in DOMAIN o.perm : o.perm[k] = p]) = cl)]
Clean(o) == (\A k \in DOMAIN o.excs : o.excs[k] = "") /\ o.rexc = ""
Form(e, o) ==
    LET b == DFold(DEmpty, o.calls) IN
    (IF o.seq # DSeq(b, e.table) THEN {<<"clauses", o.perm>>} ELSE {})
    \cup (IF ~o.balanced THEN {<<"unbalanced", o.perm>>} ELSE {})
    \cup (IF ~DComplete(b) /\ o.text # "" THEN {<<"fragment", o.perm>>} ELSE {})
Verdict(e) ==
    LET ok == {k \in DOMAIN e.orders : Clean(e.orders[k])}
        form == UNION {Form(e, e.orders[k]) : k \in ok}
        raised == {<<"raises", e.orders[k].perm>> : k \in DOMAIN e.orders \ ok}
        comm == {<<"order-dependent", e.orders[p[1]].perm, e.orders[p[2]].perm>> :
                   p \in {q \in ok \X ok : q[1] < q[2] /\ Key(e.orders[q[1]]) = Key(e.orders[q[2]]) /\ e.orders[q[1]].text # e.orders[q[2]].text}}
    IN [tid |-> e.tid, form |-> form \cup raised, comm |-> comm]
Next == /\ i <= Len(Events)
        /\ LET v == Verdict(Events[i]) IN IF v.form = {} /\ v.comm = {} THEN TRUE ELSE PrintT("V " \o ToJson(v))
        /\ i' = i + 1
Spec == Init /\ [][Next]_i
=============================================================================
