------------------------------- MODULE MC_C10 -------------------------------
(* Generator for C10: inner queries whose clauses carry aliased terms (one  *)
(* term class at a time) and inner queries that are themselves nested, at   *)
(* every embedding position.                                                *)
EXTENDS PT_Builder, PT_Embed, Json
Fld(s, c) == [k |-> "fld", src |-> s, n |-> c]
Num(n) == [k |-> "num", n |-> n]
Cmp(l, r) == [k |-> "bin", op |-> "=", l |-> l, r |-> r]
Gt(l, r) == [k |-> "bin", op |-> ">", l |-> l, r |-> r]
WithAl(t, a) == [x \in DOMAIN t \cup {"al"} |-> IF x = "al" THEN a ELSE t[x]]
AliasedTerms == { WithAl(Fld("T1", "b"), "ala"),
                  WithAl([k |-> "bin", op |-> "+", l |-> Fld("T1", "b"), r |-> Num("1")], "ala"),
                  WithAl([k |-> "call", f |-> "UPPER", args |-> <<Fld("T1", "b")>>], "ala"),
                  WithAl([k |-> "call", f |-> "SUM", args |-> <<Fld("T1", "b")>>], "ala"),
                  WithAl([k |-> "case", w |-> Cmp(Fld("T1", "b"), Num("1")), t |-> Num("2"), e |-> Num("3")], "ala"),
                  WithAl(Cmp(Fld("T1", "b"), Num("4")), "ala"),
                  WithAl([k |-> "neg", a |-> Fld("T1", "b")], "ala"),
                  WithAl(Num("9"), "ala"), WithAl([k |-> "isnull", a |-> Fld("T1", "b")], "ala") }
From == [m |-> "from_", src |-> "T1"]
Sel == [m |-> "select", terms |-> <<Fld("T1", "a")>>]
ClauseOf(t) == { <<"select", <<From, [m |-> "select", terms |-> <<Fld("T1", "a"), t>>]>> >>,
                 <<"where", <<From, Sel, [m |-> "where", crit |-> Cmp(t, Num("1"))]>> >>,
                 <<"where-crit", <<From, Sel, [m |-> "where", crit |-> Gt(t, Num("0"))], [m |-> "where", crit |-> Cmp(Fld("T1", "c"), Num("2"))]>> >>,
                 <<"groupby", <<From, Sel, [m |-> "groupby", terms |-> <<t>>]>> >>,
                 <<"groupby-selected", <<From, [m |-> "select", terms |-> <<t>>], [m |-> "groupby", terms |-> <<t>>]>> >>,
                 <<"having", <<From, Sel, [m |-> "groupby", terms |-> <<Fld("T1", "a")>>], [m |-> "having", crit |-> Gt(t, Num("1"))]>> >>,
                 <<"orderby", <<From, Sel, [m |-> "orderby", terms |-> <<t>>, dir |-> ""]>> >>,
                 <<"join-on", <<From, [m |-> "join", item |-> "T2", how |-> "", kind |-> "on", crit |-> Cmp(t, Fld("T2", "a")), cols |-> <<>>], Sel>> >>,
                 <<"limit", <<From, Sel, [m |-> "orderby", terms |-> <<t>>, dir |-> "DESC"], [m |-> "limit", n |-> 3], [m |-> "offset", n |-> 1]>> >> }
Nested == { <<"nested-from", <<[m |-> "from_", src |-> "Q6"], [m |-> "select", terms |-> <<Fld("Q6", "a")>>], [m |-> "where", crit |-> Cmp(Fld("Q6", "b"), Num("1"))]>> >>,
            <<"nested-join", <<From, [m |-> "join", item |-> "Q6", how |-> "", kind |-> "on", crit |-> Cmp(Fld("T1", "a"), Fld("Q6", "a")), cols |-> <<>>], Sel>> >>,
            <<"plain", <<From, Sel>> >>,
            <<"with-cte", <<[m |-> "with_", name |-> "c7"], [m |-> "from_", src |-> "C7"], [m |-> "select", terms |-> <<Fld("C7", "a")>>]>> >>,
            <<"where-or", <<From, Sel, [m |-> "where", crit |-> [k |-> "bin", op |-> "OR", l |-> Cmp(Fld("T1", "b"), Num("1")), r |-> Cmp(Fld("T1", "c"), Num("2"))]]>> >>,
            <<"where-and-or", <<From, Sel, [m |-> "where", crit |-> [k |-> "bin", op |-> "OR", l |-> Cmp(Fld("T1", "b"), Num("1")), r |-> Cmp(Fld("T1", "c"), Num("2"))]],
                                [m |-> "where", crit |-> Cmp(Fld("T1", "a"), Num("3"))]>> >>,
            <<"having-or", <<From, Sel, [m |-> "groupby", terms |-> <<Fld("T1", "a")>>],
                             [m |-> "having", crit |-> [k |-> "bin", op |-> "OR", l |-> Gt([k |-> "call", f |-> "SUM", args |-> <<Fld("T1", "b")>>], Num("1")), r |-> Cmp(Fld("T1", "a"), Num("2"))]]>> >>,
            <<"distinct", <<From, Sel, [m |-> "distinct"]>> >>,
            \* a SELECT without a FROM of its own over another statement's columns (a correlated scalar expression)
            <<"fromless", <<[m |-> "select", terms |-> <<WithAl([k |-> "bin", op |-> "+", l |-> Fld("T1", "a"), r |-> Num("1")], "ala"), Fld("T1", "b")>>]>> >>,
            <<"fromless-one", <<[m |-> "select", terms |-> <<Fld("T2", "b")>>]>> >>,
            \* the clause only the dialect's own builder class has (MySQL modifiers, PostgreSQL DISTINCT ON, MSSQL TOP), index hints / FOR UPDATE / WITH TOTALS
            <<"dialect-own", <<From, Sel, [m |-> "dialect_own"]>> >>,
            <<"hints", <<From, Sel, [m |-> "hints"]>> >>,
            \* JOIN ON with a compound criterion (a bracket request of the embedding position must not reach it)
            <<"join-on-and", <<From, [m |-> "join", item |-> "T2", how |-> "", kind |-> "on",
                                      crit |-> [k |-> "bin", op |-> "AND", l |-> Cmp(Fld("T1", "a"), Fld("T2", "a")), r |-> Cmp(Fld("T1", "b"), Fld("T2", "b"))], cols |-> <<>>], Sel>> >>,
            <<"join-on-or", <<From, [m |-> "join", item |-> "T2", how |-> "LEFT", kind |-> "on",
                                     crit |-> [k |-> "bin", op |-> "OR", l |-> Cmp(Fld("T1", "a"), Fld("T2", "a")), r |-> Cmp(Fld("T1", "b"), Num("1"))], cols |-> <<>>], Sel>> >>,
            <<"groupby-having-and", <<From, Sel, [m |-> "groupby", terms |-> <<Fld("T1", "a")>>],
                                      [m |-> "having", crit |-> [k |-> "bin", op |-> "AND", l |-> Gt([k |-> "call", f |-> "SUM", args |-> <<Fld("T1", "b")>>], Num("1")), r |-> Cmp(Fld("T1", "a"), Num("2"))]]>> >>,
            \* the inner statement is a set operation (the executor applies the last pseudo-call itself)
            <<"setop-union", <<From, Sel, [m |-> "union_with", src |-> "T2"]>> >>,
            <<"setop-union-ordered", <<From, Sel, [m |-> "union_with", src |-> "T2", orderby |-> TRUE]>> >>,
            <<"param-values", <<From, Sel, [m |-> "where", crit |-> Cmp(Fld("T1", "b"), Num("5"))], [m |-> "where", crit |-> Cmp(Fld("T1", "c"), [k |-> "str", n |-> "x"])]>> >> }
\* data-modifying statements with RETURNING (PostgreSQL): bodies of a CTE only
Dml == { <<"dml-insert-returning", <<[m |-> "into", src |-> "T1"], [m |-> "insert", row |-> <<Num("1"), Num("2")>>], [m |-> "returning", terms |-> <<Fld("T1", "a")>>]>> >>,
         <<"dml-delete-returning", <<From, [m |-> "delete"], [m |-> "where", crit |-> Cmp(Fld("T1", "b"), Num("1"))], [m |-> "returning", terms |-> <<Fld("T1", "a"), Fld("T1", "b")>>]>> >>,
         <<"dml-update-returning", <<[m |-> "update", src |-> "T1"], [m |-> "set", col |-> "b", val |-> Num("2")], [m |-> "returning", terms |-> <<Fld("T1", "a")>>]>> >> }
VARIABLES inner, pos
Init == \/ /\ pos \in Positions
           /\ inner \in UNION {ClauseOf(t) : t \in AliasedTerms} \cup Nested
        \/ /\ pos \in {"cte", "cte-joined"}
           /\ inner \in Dml
Next == UNCHANGED <<inner, pos>>
Emit == PrintT("H " \o ToJson([clause |-> inner[1], hist |-> inner[2], pos |-> pos]))
=============================================================================
