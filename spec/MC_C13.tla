------------------------------- MODULE MC_C13 -------------------------------
(* Generator for C13: every subset of <= MaxCalls calls from the family's   *)
(* pool and every permutation of it (the state graph makes the commutation  *)
(* diamonds explicit).  Pool entries are distinct calls; two entries may    *)
(* address the same clause (accumulation in call order).                    *)
EXTENDS PT_Builder, Json
CONSTANTS Fam, MaxCalls

Fld(s, c) == [k |-> "fld", src |-> s, n |-> c]
FldA(s, c, a) == [k |-> "fld", src |-> s, n |-> c, al |-> a]
Cmp(l, r) == [k |-> "bin", op |-> "=", l |-> l, r |-> r]
Gt(l, r) == [k |-> "bin", op |-> ">", l |-> l, r |-> r]
Num(n) == [k |-> "num", n |-> n]
Sum(t) == [k |-> "call", f |-> "SUM", args |-> <<t>>]
JoinT2 == [m |-> "join", item |-> "T2", how |-> "", kind |-> "on", crit |-> Cmp(Fld("T1", "a"), Fld("T2", "a")), cols |-> <<>>]

SelectPool == << [m |-> "from_", src |-> "T5"], [m |-> "into", src |-> "T2"], [m |-> "orderbystr", name |-> "alb"], [m |-> "groupbystr", name |-> "alb"],
                 [m |-> "select", terms |-> <<Fld("T1", "a")>>],
                 [m |-> "select", terms |-> <<FldA("T1", "b", "alb")>>],
                 [m |-> "where", crit |-> Cmp(Fld("T1", "a"), Num("1"))], [m |-> "where", crit |-> Cmp(Fld("T1", "b"), Num("2"))],
                 [m |-> "groupby", terms |-> <<Fld("T1", "a")>>], [m |-> "having", crit |-> Gt(Sum(Fld("T1", "b")), Num("3"))],
                 [m |-> "orderby", terms |-> <<Fld("T1", "a")>>, dir |-> ""], [m |-> "limit", n |-> 5], [m |-> "offset", n |-> 2],
                 [m |-> "distinct"], JoinT2, [m |-> "force_index", name |-> "i1"], [m |-> "use_index", name |-> "i2"], [m |-> "for_update"],
                 \* ordering / grouping by the aliased TERM itself: written as the alias once the select list defines it, whichever call came first
                 [m |-> "orderby", terms |-> <<FldA("T1", "b", "alb")>>, dir |-> "DESC"], [m |-> "groupby", terms |-> <<FldA("T1", "b", "alb")>>] >>
InsertPool == << [m |-> "columns", names |-> <<"a", "b">>], [m |-> "insert", row |-> <<Num("1"), Num("2")>>],
                 [m |-> "insert", row |-> <<Num("3"), Num("4")>>], [m |-> "on_conflict", names |-> <<"a">>],
                 [m |-> "do_update", col |-> "b", val |-> Num("9")], [m |-> "do_nothing"], [m |-> "where", crit |-> Cmp(Fld("T1", "a"), Num("1"))],
                 [m |-> "select", terms |-> <<Fld("T2", "a")>>], [m |-> "from_", src |-> "T2"], [m |-> "returning", terms |-> <<Fld("T1", "a")>>] >>
UpdatePool == << [m |-> "set", col |-> "a", val |-> Num("1")], [m |-> "set", col |-> "b", val |-> Num("2")],
                 [m |-> "where", crit |-> Cmp(Fld("T1", "a"), Num("1"))], [m |-> "from_", src |-> "T2"], JoinT2,
                 [m |-> "limit", n |-> 3], [m |-> "orderby", terms |-> <<Fld("T1", "a")>>, dir |-> ""], [m |-> "returning", terms |-> <<Fld("T1", "a")>>] >>
DeletePool == << [m |-> "from_", src |-> "T1"], [m |-> "delete"], [m |-> "where", crit |-> Cmp(Fld("T1", "a"), Num("1"))],
                 [m |-> "orderby", terms |-> <<Fld("T1", "a")>>, dir |-> ""], [m |-> "limit", n |-> 3], JoinT2,
                 [m |-> "select", terms |-> <<Fld("T1", "a")>>], [m |-> "returning", terms |-> <<Fld("T1", "a")>>] >>
Pool == CASE Fam = "select" -> SelectPool [] Fam = "insert" -> InsertPool [] Fam = "update" -> UpdatePool [] OTHER -> DeletePool

VARIABLES perm    \* sequence of pool indices, without repetition
Init == perm = <<>>
Next == /\ Len(perm) < MaxCalls
        /\ \E i \in DOMAIN Pool : (\A k \in DOMAIN perm : perm[k] # i) /\ perm' = Append(perm, i)
\* INSERT and UPDATE families start from the entry point that makes them such (Query.into / Query.update)
Prefix == CASE Fam = "select" -> << [m |-> "from_", src |-> "T1"] >> [] Fam = "insert" -> << [m |-> "into", src |-> "T1"] >> [] Fam = "update" -> << [m |-> "update", src |-> "T1"] >> [] OTHER -> <<>>
Calls == Prefix \o [k \in DOMAIN perm |-> Pool[perm[k]]]
Emit == PrintT("P " \o ToJson([perm |-> perm, calls |-> Calls]))

\* design-level confluence: two adjacent calls that address different clauses and do not read what the other writes commute in the spec
Reads(c) == CASE c.m = "where" -> {"oc", "from", "joins", "upd"} [] c.m = "into" -> {"sel"} [] c.m \in {"update", "delete"} -> {"sel", "upd", "del"}
              [] c.m = "join" -> {"from", "joins", "upd", "ctes"} [] c.m \in {"columns", "insert", "replace", "on_conflict"} -> {"ins"}
              [] c.m = "do_update" -> {"oc"} [] c.m = "do_nothing" -> {"oc"} [] c.m = "select" -> {"star"} [] c.m \in {"orderbystr", "groupbystr", "selectstr"} -> {"from"} [] OTHER -> {}
Writes(c) == CASE c.m = "from_" -> {"from"} [] c.m = "select" -> {"sel", "star"} [] c.m = "where" -> {"whr", "foreign", "oc"} [] c.m = "join" -> {"joins"}
               [] c.m = "into" -> {"ins", "selinto"} [] c.m = "update" -> {"upd"} [] c.m = "delete" -> {"del"} [] c.m = "on_conflict" -> {"oc"}
               [] c.m \in {"do_update", "do_nothing"} -> {"oc"} [] c.m \in {"insert", "replace"} -> {"vals"} [] c.m = "columns" -> {"cols"}
               [] c.m = "set" -> {"sets"} [] c.m = "limit" -> {"lim"} [] c.m = "offset" -> {"off"} [] c.m = "groupby" -> {"grp"}
               [] c.m = "having" -> {"hav"} [] c.m = "returning" -> {"ret"} [] c.m \in {"orderby", "orderbystr"} -> {"ord"} [] c.m = "groupbystr" -> {"grp"} [] OTHER -> {c.m}
Independent(c1, c2) == Reads(c1) \cap Writes(c2) = {} /\ Reads(c2) \cap Writes(c1) = {} /\ Writes(c1) \cap Writes(c2) = {}
Confluent == \A k \in 1..(Len(Calls) - 1) :
                LET pre == Fold(Empty, SubSeq(Calls, 1, k - 1))  c1 == Calls[k]  c2 == Calls[k + 1] IN
                Independent(c1, c2) => Step(Step(pre, c1), c2) = Step(Step(pre, c2), c1)
=============================================================================
