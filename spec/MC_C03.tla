------------------------------- MODULE MC_C03 -------------------------------
(* Generator for C03: programs of the relational core over the fixed schema *)
(*   t1(a, b, c)  t2(a, b, c)  t3 AS A3 (a, b, c)   a, b integer  c text    *)
(* grown by transitions as a base (statement kind, sources) plus up to      *)
(* MaxUnits clause units; every state with a complete statement is printed  *)
(* together with its reference transcription RefFull and its suspects.      *)
EXTENDS PT_RefSql, Json
CONSTANTS MaxUnits, Rich      \* Rich: full term pools in every slot (thorough)

Fld(s, c) == [k |-> "fld", src |-> s, n |-> c]
Num(n) == [k |-> "num", n |-> n]
Str(n) == [k |-> "str", n |-> n]
Bin(o, l, r) == [k |-> "bin", op |-> o, l |-> l, r |-> r]
WithAl(t, a) == [x \in DOMAIN t \cup {"al"} |-> IF x = "al" THEN a ELSE t[x]]
Call(f, args) == [k |-> "call", f |-> f, args |-> args]
Ops == {"+", "-", "*", "/"}

\* arithmetic terms over the fields of source s: every parent / child / side pair (one compound child)
Arith1(s) == {Bin(o, x, y) : o \in Ops, x \in {Fld(s, "a"), Num("7")}, y \in {Fld(s, "b"), Num("-1"), Num("2")}}
Arith2(s) == {Bin(o2, Bin(o1, Fld(s, "a"), Num("2")), z) : o1 \in Ops, o2 \in Ops, z \in {Fld(s, "b"), Num("-1")}}
             \cup {Bin(o2, z, Bin(o1, Fld(s, "a"), Num("2"))) : o1 \in Ops, o2 \in Ops, z \in {Fld(s, "b"), Num("-1")}}
             \cup {Bin(o2, z, Bin(o1, Num("-1"), Fld(s, "a"))) : o1 \in {"-", "*"}, o2 \in {"-", "+"}, z \in {Fld(s, "b")}}
Frames == { [unit |-> "ROWS", lo |-> <<"P", 1>>, hi |-> <<"C">>], [unit |-> "ROWS", lo |-> <<"P", 0>>, hi |-> <<"F", 1>>], [unit |-> "ROWS", lo |-> <<"P", -1>>, hi |-> <<"C">>],
            [unit |-> "ROWS", lo |-> <<"P", 2>>, hi |-> <<>>], [unit |-> "ROWS", lo |-> <<"C">>, hi |-> <<"F", -1>>], [unit |-> "ROWS", lo |-> <<"F", 0>>, hi |-> <<"F", 2>>],
            [unit |-> "RANGE", lo |-> <<"P", -1>>, hi |-> <<"C">>], [unit |-> "RANGE", lo |-> <<"C">>, hi |-> <<"F", -1>>] }
Other(s) == { [k |-> "neg", a |-> Fld(s, "a")], [k |-> "neg", a |-> Bin("+", Fld(s, "a"), Fld(s, "b"))], [k |-> "neg", a |-> Num("-1")],
              [k |-> "case", w |-> Bin("<", Fld(s, "a"), Num("2")), t |-> Fld(s, "b"), e |-> Num("0")],
              Call("ABS", <<Bin("-", Fld(s, "a"), Fld(s, "b"))>>), Call("COALESCE", <<Fld(s, "b"), Num("0")>>),
              Call("UPPER", <<Fld(s, "c")>>), Fld(s, "c"), Str("x"),
              Bin("=", Fld(s, "a"), Fld(s, "b")), [k |-> "isnull", a |-> Fld(s, "b")],
              [k |-> "win", f |-> "SUM", args |-> <<Fld(s, "b")>>, part |-> <<Fld(s, "c")>>, ord |-> <<Fld(s, "a")>>],
              [k |-> "win", f |-> "ROW_NUMBER", args |-> <<>>, part |-> <<>>, ord |-> <<Fld(s, "a")>>],
              \* the partition / order lists built by one call per term (sep): over(c).over(a), orderby(b).orderby(a)
              [k |-> "win", f |-> "SUM", args |-> <<Fld(s, "b")>>, part |-> <<Fld(s, "c"), Fld(s, "a")>>, ord |-> <<Fld(s, "b"), Fld(s, "a")>>, sep |-> TRUE],
              [k |-> "win", f |-> "SUM", args |-> <<Fld(s, "b")>>, part |-> <<Fld(s, "c"), Fld(s, "b")>>, ord |-> <<>>, sep |-> TRUE],
              [k |-> "win", f |-> "SUM", args |-> <<Fld(s, "b")>>, part |-> <<Fld(s, "c"), Fld(s, "b")>>, ord |-> <<Fld(s, "a")>>] }
           \cup {[k |-> "win", f |-> "SUM", args |-> <<Fld(s, "b")>>, part |-> <<Fld(s, "c")>>, ord |-> <<Fld(s, "a")>>, frame |-> fr] : fr \in Frames}
           \* offset functions with their optional arguments (defaults that are 0 / '' / absent), ranking and value functions
           \cup {[k |-> "win", f |-> fname, args |-> as, part |-> <<Fld(s, "c")>>, ord |-> <<Fld(s, "a")>>] :
                    fname \in {"LAG", "LEAD"}, as \in {<<Fld(s, "b")>>, <<Fld(s, "b"), Num("1")>>, <<Fld(s, "b"), Num("1"), Num("0")>>, <<Fld(s, "b"), Num("2"), Num("-1")>>,
                                                     <<Fld(s, "c"), Num("1"), Str("")>>}}
           \cup {[k |-> "win", f |-> "RANK", args |-> <<>>, part |-> <<Fld(s, "c")>>, ord |-> <<Fld(s, "b")>>],
                 [k |-> "win", f |-> "DENSE_RANK", args |-> <<>>, part |-> <<>>, ord |-> <<Fld(s, "b")>>],
                 [k |-> "win", f |-> "NTILE", args |-> <<Num("2")>>, part |-> <<>>, ord |-> <<Fld(s, "a")>>],
                 [k |-> "win", f |-> "FIRST_VALUE", args |-> <<Fld(s, "b")>>, part |-> <<Fld(s, "c")>>, ord |-> <<Fld(s, "a")>>],
                 [k |-> "win", f |-> "LAST_VALUE", args |-> <<Fld(s, "b")>>, part |-> <<Fld(s, "c")>>, ord |-> <<Fld(s, "a")>>],
                 [k |-> "win", f |-> "MAX", args |-> <<Fld(s, "b")>>, part |-> <<Fld(s, "c")>>, ord |-> <<>>],
                 [k |-> "win", f |-> "COUNT", args |-> <<Fld(s, "b")>>, part |-> <<Fld(s, "c")>>, ord |-> <<Fld(s, "a")>>]}

SelTerms(s) == Arith1(s) \cup Arith2(s) \cup Other(s)
Atom(s) == {Bin("=", Fld(s, "a"), Num("1")), Bin("<", Fld(s, "b"), Num("2")), Bin("<>", Fld(s, "c"), Str("x")), [k |-> "isnull", a |-> Fld(s, "b")]}
Crits(s) == Atom(s)
    \cup {Bin(o, x, y) : o \in {"AND", "OR"}, x \in Atom(s), y \in Atom(s)}
    \cup {Bin(o2, Bin(o1, Bin("=", Fld(s, "a"), Num("1")), Bin("<", Fld(s, "b"), Num("2"))), Bin("<>", Fld(s, "c"), Str("x"))) : o1 \in {"AND", "OR"}, o2 \in {"AND", "OR"}}
    \cup {Bin(o2, Bin("<>", Fld(s, "c"), Str("x")), Bin(o1, Bin("=", Fld(s, "a"), Num("1")), Bin("<", Fld(s, "b"), Num("2")))) : o1 \in {"AND", "OR"}, o2 \in {"AND", "OR"}}
    \cup {[k |-> "not", a |-> c] : c \in Atom(s) \cup {Bin("OR", Bin("=", Fld(s, "a"), Num("1")), Bin("<", Fld(s, "b"), Num("2")))}}
    \cup {[k |-> "in", a |-> Fld(s, "a"), items |-> <<Num("1"), Num("3")>>], [k |-> "between", a |-> Fld(s, "a"), lo |-> Num("1"), hi |-> Num("2")],
          [k |-> "not", a |-> [k |-> "in", a |-> Fld(s, "a"), items |-> <<Num("1"), Num("3")>>]],
          \* membership in an EMPTY list (false for every row, NULL included; its negation true for every row)
          [k |-> "in", a |-> Fld(s, "b"), items |-> <<>>], [k |-> "not", a |-> [k |-> "in", a |-> Fld(s, "b"), items |-> <<>>]],
          Bin("OR", [k |-> "not", a |-> [k |-> "in", a |-> Fld(s, "b"), items |-> <<>>]], Bin("=", Fld(s, "a"), Num("1"))),
          Bin("<", Bin("-", Fld(s, "a"), Num("-1")), Num("3")), Bin("=", Bin("*", Fld(s, "a"), Bin("/", Fld(s, "b"), Num("2"))), Num("0")),
          Bin(">", Fld(s, "b"), [k |-> "neg", a |-> Fld(s, "a")])}

Sel(ts) == [m |-> "select", terms |-> ts]
Where(c) == [m |-> "where", crit |-> c]
SelectUnits(s, rich) ==
       {<<Sel(<<t>>)>> : t \in IF rich THEN SelTerms(s) ELSE {Bin("+", Fld(s, "b"), Num("2")), Fld(s, "c")}}
  \cup {<<Sel(<<WithAl(t, "alx")>>), [m |-> "orderby", terms |-> <<WithAl(t, "alx")>>, dir |-> "DESC"]>> : t \in IF rich THEN {Bin("-", Fld(s, "a"), Fld(s, "b")), Fld(s, "b")} ELSE {}}
  \* ordering by a column NAME (a string) while a select item carries that name as its alias: the string names the column of the first FROM table
  \cup (IF rich THEN {<<Sel(<<WithAl(Fld(s, "b"), "c")>>), [m |-> "orderbystr", name |-> "c"]>>,
                       <<Sel(<<WithAl(Bin("-", Num("0"), Fld(s, "a")), "b")>>), [m |-> "orderbystr", name |-> "b"], [m |-> "limit", n |-> 2]>>} ELSE {})
  \cup {<<Where(c)>> : c \in IF rich THEN Crits(s) ELSE {Bin("<", Fld(s, "b"), Num("2")), Bin("OR", Bin("=", Fld(s, "a"), Num("1")), [k |-> "isnull", a |-> Fld(s, "b")])}}
  \cup {<<[m |-> "distinct"]>>}
  \cup {<<[m |-> "orderby", terms |-> <<t>>, dir |-> d]>> : t \in IF rich THEN {Fld(s, "b"), Bin("-", Fld(s, "a"), Fld(s, "b")), Fld(s, "c")} ELSE {Fld(s, "b")}, d \in {"", "DESC"}}
  \cup {<<[m |-> "orderby", terms |-> <<Fld(s, "a")>>, dir |-> ""], [m |-> "limit", n |-> 2]>>,
        <<[m |-> "orderby", terms |-> <<Fld(s, "a")>>, dir |-> ""], [m |-> "limit", n |-> 2], [m |-> "offset", n |-> 1]>>,
        <<[m |-> "orderby", terms |-> <<Fld(s, "a")>>, dir |-> ""], [m |-> "offset", n |-> 1]>>,
        <<[m |-> "orderby", terms |-> <<Fld(s, "a")>>, dir |-> "DESC"], [m |-> "slice", start |-> 1, stop |-> 3]>>}
GroupBase(s) == << [m |-> "from_", src |-> s], Sel(<<Fld(s, "c"), WithAl(Call("SUM", <<Fld(s, "b")>>), "sm")>>), [m |-> "groupby", terms |-> <<Fld(s, "c")>>] >>
GroupUnits(s) == {<<[m |-> "having", crit |-> Bin(">", Call("SUM", <<Fld(s, "b")>>), Num("1"))]>>,
                  <<[m |-> "having", crit |-> Bin("OR", Bin(">", Call("MAX", <<Fld(s, "a")>>), Num("1")), Bin("=", Fld(s, "c"), Str("x")))]>>,
                  <<Sel(<<Call("COUNT", <<>>)>>)>>,
                  <<Sel(<<[k |-> "call", f |-> "SUM", args |-> <<Bin("*", Bin("+", Fld(s, "a"), Num("1")), Fld(s, "b"))>>, dist |-> TRUE]>>)>>,
                  <<Sel(<<[k |-> "call", f |-> "COUNT", args |-> <<Call("ABS", <<Fld(s, "b")>>)>>, dist |-> TRUE]>>)>>,
                  <<Sel(<<[k |-> "call", f |-> "COUNT", args |-> <<Fld(s, "b")>>, dist |-> TRUE]>>)>>, <<Sel(<<Bin("/", Call("SUM", <<Fld(s, "a")>>), Call("MAX", <<Fld(s, "b")>>))>>)>>,
                  <<[m |-> "orderby", terms |-> <<WithAl(Call("SUM", <<Fld(s, "b")>>), "sm")>>, dir |-> "DESC"]>>,
                  <<Where(Bin("<", Fld(s, "a"), Num("3")))>>, <<[m |-> "groupby", terms |-> <<Bin("+", Fld(s, "a"), Num("1"))>>]>>}

JoinOn(s, t, how) == [m |-> "join", item |-> t, how |-> how, kind |-> "on", crit |-> Bin("=", Fld(s, "a"), Fld(t, "a")), cols |-> <<>>]
Bases ==
       \* a correlated subquery over an aliased twin of the OUTER statement's table (only judged inside that outer statement)
       {<<"select-correlated", "A1", <<[m |-> "from_", src |-> "A1"], Sel(<<Fld("A1", "b")>>), Where(Bin("<>", Fld("A1", "a"), Fld("T1", "a")))>> >>,
        <<"select-correlated", "A1", <<[m |-> "from_", src |-> "A1"], Sel(<<Fld("A1", "b")>>), Where(Bin("<", Fld("T1", "a"), Fld("A1", "a")))>> >>,
        <<"select-correlated", "A1", <<[m |-> "from_", src |-> "A1"], Sel(<<Bin("+", Fld("A1", "b"), Num("1"))>>), Where(Bin("=", Fld("A1", "c"), Fld("T1", "c")))>> >>}
  \cup
       {<<"select", s, <<[m |-> "from_", src |-> s], Sel(<<Fld(s, "a")>>)>> >> : s \in {"T1", "A3"}}
  \cup {<<"select-join", "T1", <<[m |-> "from_", src |-> "T1"], JoinOn("T1", "T2", h), Sel(<<Fld("T1", "a"), Fld("T2", "b")>>)>> >> : h \in {"", "LEFT"}}
  \cup {<<"select-join", "T1", <<[m |-> "from_", src |-> "T1"], [m |-> "join", item |-> "T2", how |-> "CROSS", kind |-> "cross", crit |-> Num("0"), cols |-> <<>>],
                                  Sel(<<Fld("T1", "a"), Fld("T2", "c")>>)>> >>,
        <<"select-join", "T1", <<[m |-> "from_", src |-> "T1"], [m |-> "from_", src |-> "T2"], Sel(<<Fld("T1", "a"), Fld("T2", "a")>>),
                                  Where(Bin("=", Fld("T1", "b"), Fld("T2", "b")))>> >>,
        <<"select-join", "T1", <<[m |-> "from_", src |-> "T1"], JoinOn("T1", "A1", ""), Sel(<<Fld("T1", "a"), Fld("A1", "b")>>)>> >>,
        <<"select-subq", "Q6", <<[m |-> "from_", src |-> "Q6"], Sel(<<Fld("Q6", "a")>>)>> >>,
        <<"group", "T1", GroupBase("T1")>>, <<"group", "A3", GroupBase("A3")>>,
        <<"insert", "T1", <<[m |-> "into", src |-> "T1"]>> >>,
        <<"upsert", "T1", <<[m |-> "into", src |-> "T1"], [m |-> "insert", row |-> <<Num("1"), Num("9"), Str("u")>>], [m |-> "on_conflict", names |-> <<"a">>]>> >>,
        <<"upsert-select", "T2", <<[m |-> "into", src |-> "T1"], [m |-> "from_", src |-> "T2"], Sel(<<Fld("T2", "a"), Fld("T2", "b"), Fld("T2", "c")>>),
                                   [m |-> "on_conflict", names |-> <<"a">>], [m |-> "do_nothing"]>> >>,
        <<"upsert-select", "T2", <<[m |-> "into", src |-> "T1"], [m |-> "from_", src |-> "T2"], Sel(<<Fld("T2", "a"), Fld("T2", "b"), Fld("T2", "c")>>),
                                   [m |-> "on_conflict", names |-> <<"a">>], [m |-> "do_update", col |-> "b", val |-> Num("4")]>> >>,
        \* where() BEFORE on_conflict is the SELECT's WHERE (after it, it is routed to the conflict clauses, where T2 is not visible)
        <<"upsert-select", "T2", <<[m |-> "into", src |-> "T1"], [m |-> "from_", src |-> "T2"], Sel(<<Fld("T2", "a"), Fld("T2", "b"), Fld("T2", "c")>>),
                                   Where(Bin(">", Fld("T2", "b"), Num("0"))), [m |-> "on_conflict", names |-> <<"a">>], [m |-> "do_nothing"]>> >>,
        <<"upsert-select", "T2", <<[m |-> "into", src |-> "T1"], [m |-> "from_", src |-> "T2"], Sel(<<Fld("T2", "a"), Fld("T2", "b"), Fld("T2", "c")>>),
                                   Where(Bin(">", Fld("T2", "b"), Num("0"))), [m |-> "on_conflict", names |-> <<"a">>],
                                   [m |-> "do_update", col |-> "b", val |-> Bin("+", Fld("T1", "b"), Num("1"))]>> >>,
        <<"update", "T1", <<[m |-> "update", src |-> "T1"]>> >>, <<"update", "A3", <<[m |-> "update", src |-> "A3"]>> >>,
        <<"update-from", "T1", <<[m |-> "update", src |-> "T1"], [m |-> "from_", src |-> "T2"], Where(Bin("=", Fld("T1", "a"), Fld("T2", "a")))>> >>,
        <<"update-join", "T1", <<[m |-> "update", src |-> "T1"], JoinOn("T1", "T2", "")>> >>,
        <<"delete", "T1", <<[m |-> "from_", src |-> "T1"], [m |-> "delete"]>> >>}

Units(kind, s) ==
    IF kind \in {"select", "select-join", "select-subq"} THEN SelectUnits(s, Rich)
    ELSE IF kind = "group" THEN GroupUnits(s)
    ELSE IF kind = "insert" THEN
        {<<[m |-> "insert", row |-> <<Num("5"), Num("-1"), Str("n")>>]>>,
         <<[m |-> "insert", row |-> <<Num("5"), Num("6"), Str("n")>>], [m |-> "insert", row |-> <<Num("7"), Bin("-", Num("2"), Num("-1")), Str("it")>>]>>,
         <<[m |-> "columns", names |-> <<"a", "c">>], [m |-> "insert", row |-> <<Num("5"), Str("q")>>]>>,
         <<[m |-> "replace", row |-> <<Num("1"), Num("8"), Str("r")>>]>>,
         <<[m |-> "from_", src |-> "T2"], Sel(<<Fld("T2", "a"), Bin("*", Fld("T2", "b"), Num("2")), Fld("T2", "c")>>), Where(Bin(">", Fld("T2", "a"), Num("5")))>>}
    ELSE IF kind = "upsert-select" THEN
        {<<Where(Bin(">", Fld("T2", "a"), Num("0")))>>, <<Where(Bin(">", Fld("T2", "a"), Num("0"))), [m |-> "orderby", terms |-> <<Fld("T2", "a")>>, dir |-> ""], [m |-> "limit", n |-> 2]>>,
         <<[m |-> "orderby", terms |-> <<Fld("T2", "a")>>, dir |-> ""], [m |-> "limit", n |-> 2]>>,
         <<[m |-> "groupby", terms |-> <<Fld("T2", "a"), Fld("T2", "b"), Fld("T2", "c")>>]>>,
         <<[m |-> "groupby", terms |-> <<Fld("T2", "a"), Fld("T2", "b"), Fld("T2", "c")>>], [m |-> "having", crit |-> Bin(">", Fld("T2", "a"), Num("0"))]>>,
         <<[m |-> "distinct"]>>}
    ELSE IF kind = "upsert" THEN
        {<<[m |-> "do_nothing"]>>, <<[m |-> "do_update", col |-> "b", val |-> Num("4")]>>,
         <<[m |-> "do_update", col |-> "b", val |-> Bin("+", Fld("T1", "b"), Num("1"))]>>,
         <<[m |-> "do_update", col |-> "c", val |-> Str("v")], Where(Bin("<", Fld("T1", "b"), Num("5")))>>}
    ELSE IF kind \in {"update", "update-from", "update-join"} THEN
        {<<[m |-> "set", col |-> "b", val |-> t]>> : t \in (IF Rich THEN Arith1(s) \cup Arith2(s) ELSE {Bin("-", Fld(s, "b"), Num("-1"))}) \cup {Num("3"), Str("w")}}
        \cup {<<[m |-> "set", col |-> "c", val |-> Str("z")], Where(c)>> : c \in IF Rich THEN Crits(s) ELSE {Bin("<", Fld(s, "b"), Num("2"))}}
        \cup (IF kind # "update" THEN {<<[m |-> "set", col |-> "b", val |-> Fld("T2", "b")]>>, <<[m |-> "set", col |-> "b", val |-> Bin("+", Fld(s, "b"), Fld("T2", "b"))]>>} ELSE {})
    ELSE {<<Where(c)>> : c \in IF Rich THEN Crits(s) ELSE {Bin("<", Fld(s, "b"), Num("2"))}}
         \cup {<<[m |-> "orderby", terms |-> <<Fld(s, "a")>>, dir |-> ""], [m |-> "limit", n |-> 1]>>}

VARIABLES kind, src, hist, units
Init == \E bs \in Bases : kind = bs[1] /\ src = bs[2] /\ hist = bs[3] /\ units = 0
Next == /\ units < MaxUnits
        /\ \E u \in Units(kind, src) : hist' = hist \o u
        /\ units' = units + 1 /\ UNCHANGED <<kind, src>>
St == Fold(Empty, hist)
NoRaise == \A k \in DOMAIN hist : RaiseSeq(Empty, hist)[k] = ""
Emit == ~(Complete(St) /\ NoRaise /\ RenderRaises(St, "sqlite") = "" /\ Meaningful(St)) \/ PrintT("P " \o ToJson([kind |-> kind, hist |-> hist, ref |-> RefFull(St), suspects |-> Suspects(St)]))
=============================================================================
