------------------------------- MODULE MC_Eq -------------------------------
(* Generator for C17: table variants (cross product) and expression trees   *)
(* over fields of up to three tables with overlapping column names, in      *)
(* every operand order.                                                     *)
EXTENDS PT_Terms, Json
Names == {"t", "u"}
Schemas == {"none", "str", "list", "obj", "nested"}
Aliases == {"", "x"}
Temporal == {"none", "for", "portion"}
QCls == {"generic", "mysql"}
\* construction path: everything through the constructor, or derived by builder calls (as_, for_, for_portion)
\* from a base table that has already been hashed, rendered and used in a query
Paths == {"ctor", "derived"}
Variants == [name : Names, schema : Schemas, alias : Aliases, temporal : Temporal, qcls : QCls, path : Paths]

Srcs == {"t", "u", "v", "e1", "e2", "s1i", "s2i"}      \* e1, e2: two aliases of ONE table (self-join); s1i, s2i: ONE table name in two schemas
Cols == {"a", "b"}
Fld(s, c) == [k |-> "fld", src |-> s, n |-> c]
Flds == {Fld(s, c) : s \in Srcs, c \in Cols}
Bin(o, l, r) == [k |-> "bin", op |-> o, l |-> l, r |-> r]
Core == {Fld(s, c) : s \in {"t", "u", "v"}, c \in Cols}
Pairs == {Bin(o, x, y) : o \in {"=", "+"}, x \in Flds, y \in Flds}
Triples == {Bin("AND", p, Bin("=", z, [k |-> "num", n |-> "1"])) : p \in {q \in Pairs : q.op = "=" /\ q.l \in Core /\ q.r \in Core}, z \in Core}
          \cup {Bin("AND", Bin("=", Fld("e1", "a"), Fld("e2", "a")), Bin("=", z, [k |-> "num", n |-> "1"])) : z \in Flds}
          \cup {Bin("=", [k |-> "call", f |-> "FN", args |-> <<x, y>>], z) : x \in Core, y \in Core, z \in {Fld("v", "a"), Fld("t", "a")}}
          \cup {[k |-> "in", a |-> x, items |-> <<y, z>>] : x \in Core, y \in {Fld("u", "a"), Fld("t", "b")}, z \in {Fld("v", "a"), Fld("t", "a")}}
          \cup {[k |-> "between", a |-> x, lo |-> y, hi |-> Fld("v", "a")] : x \in Core, y \in Core}
          \cup {[k |-> "case", w |-> Bin("=", x, y), t |-> Fld("v", "b"), e |-> Fld("t", "a")] : x \in Core, y \in Core}
\* two structurally identical conditions that differ in nothing but the table (alias / schema) of their column
Twins == {Bin("AND", Bin("=", Fld(x, c), [k |-> "num", n |-> "1"]), Bin("=", Fld(y, c), [k |-> "num", n |-> "1"])) :
              x \in {"s1i", "e1", "t"}, y \in {"s2i", "e2", "u"}, c \in Cols}
         \cup {Bin("+", Bin("+", Fld(x, "a"), [k |-> "num", n |-> "1"]), Bin("+", Fld(y, "a"), [k |-> "num", n |-> "1"])) : x \in {"s1i", "e1"}, y \in {"s2i", "e2"}}
\* containers whose FIRST item is a constant and a later one a column (the walk must not stop at the first literal)
Mixed == {[k |-> "in", a |-> x, items |-> <<[k |-> "num", n |-> "0"], z>>] : x \in Core, z \in {Fld("v", "a"), Fld("t", "b"), Fld("s2i", "a")}}
         \cup {[k |-> "call", f |-> "FN", args |-> <<[k |-> "num", n |-> "0"], x, [k |-> "num", n |-> "1"], z>>] : x \in Core, z \in {Fld("v", "a"), Fld("e2", "b")}}
         \cup {[k |-> "between", a |-> [k |-> "num", n |-> "5"], lo |-> x, hi |-> z] : x \in Core, z \in {Fld("v", "a"), Fld("u", "b")}}
\* the library's own Function subclasses (aggregate, analytic WITHOUT an OVER clause, cast, multi-argument): the executor builds the class the name stands for
Classes == {Bin("=", [k |-> "call", f |-> fname, args |-> <<x>>], z) : fname \in {"AN:MEDIAN", "AN:SUM", "AGG:COUNT", "FN:UPPER", "FN:CAST"}, x \in Core, z \in {Fld("v", "a"), Fld("t", "a")}}
           \cup {Bin("+", [k |-> "call", f |-> fname, args |-> <<x, y>>], z) : fname \in {"AN:LAG", "FN:COALESCE", "FN:NULLIF"}, x \in {Fld("t", "a"), Fld("u", "b")}, y \in Core, z \in {Fld("v", "a")}}
Trees == Pairs \cup Triples \cup Twins \cup Mixed \cup Classes

VARIABLES kind, item
Init == \/ kind = "variant" /\ item \in Variants
        \/ kind = "tree" /\ item \in Trees
Next == UNCHANGED <<kind, item>>
Emit == IF kind = "variant" THEN PrintT("X " \o ToJson(item))
        ELSE PrintT("T " \o ToJson([tree |-> item, fields |-> FieldsOf(item), tables |-> TablesOf(item)]))
\* C16 on the design: the intended replace_table is complete on every generated tree, for every pair of sources
ReplaceOK == kind = "tree" => \A old \in Srcs, new \in Srcs \cup {"w", ""} : ReplaceComplete(item, old, new)
\* sanity of the oracle: collection is insensitive to operand order
OrderFree == kind = "tree" /\ item.k = "bin" => FieldsOf(item) = FieldsOf([item EXCEPT !.l = item.r, !.r = item.l])
=============================================================================
