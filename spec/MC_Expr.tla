------------------------------ MODULE MC_Expr ------------------------------
(* Generator + design check for C06: enumerates expression trees, checks the *)
(* INTENDED renderer against the reference parser (ParseBack) and prints     *)
(* every tree as JSON for the executor.                                      *)
EXTENDS PT_Expr, Json
CONSTANTS Mode      \* "edge" : one compound child ; "full" : both children compound

F(n) == [k |-> "fld", n |-> n]
N(n) == [k |-> "num", n |-> n]
Leaves == {F("a"), F("b"), N("1"), N("-1")}
RichLeaves == Leaves \cup { [k |-> "call", f |-> "FN", args |-> <<F("a")>>],
                            [k |-> "case", w |-> [k |-> "bin", op |-> "=", l |-> F("a"), r |-> N("1")], t |-> F("b"), e |-> N("2")] }

BinOpsUsed == {"+", "-", "*", "/", "=", "<", "AND", "OR", "XOR"}

\* what the library accepts as an operand of AND / OR / XOR (Criterion subclasses)
IsCrit(t) == \/ t.k \in {"fld", "not", "isnull", "in", "between", "call"}
             \/ t.k = "bin" /\ t.op \notin ArithOps

OpsOver(S, T) ==
       { [k |-> "bin", op |-> o, l |-> x, r |-> y] : o \in BinOpsUsed \ BoolOps, x \in S, y \in T }
  \cup { [k |-> "bin", op |-> o, l |-> x, r |-> y] : o \in BoolOps, x \in {s \in S : IsCrit(s)}, y \in {s \in T : IsCrit(s)} }

Unary(S) ==
       { [k |-> u, a |-> x] : u \in {"neg", "not", "isnull"}, x \in S }
  \cup { [k |-> "in", a |-> x, items |-> <<N("1"), N("2")>>] : x \in S }
  \cup { [k |-> "between", a |-> x, lo |-> N("1"), hi |-> N("5")] : x \in S }
  \cup { [k |-> "between", a |-> F("a"), lo |-> x, hi |-> N("5")] : x \in S }
  \cup { [k |-> "between", a |-> F("a"), lo |-> N("1"), hi |-> x] : x \in S }
  \cup { [k |-> "in", a |-> F("a"), items |-> <<x, N("2")>>] : x \in S }
  \cup { [k |-> "call", f |-> "FN", args |-> <<x>>] : x \in S }

L1 == OpsOver(Leaves, Leaves) \cup Unary(Leaves)
L1small == OpsOver({F("a"), N("-1")}, {F("b"), N("-1")}) \cup Unary({F("a"), N("-1")})

\* an operand whose own text BEGINS and ENDS with a bracketed group:  x / ((a+b) * (c+d)),  x - ((a+b)*c - (d+e)),  and the boolean analogue
B2(o, x, y) == [k |-> "bin", op |-> o, l |-> x, r |-> y]
Groups == {B2("+", F("a"), F("b")), B2("-", F("c"), N("1"))}
BGroups == {B2("OR", B2("=", F("a"), N("1")), B2("=", F("b"), N("2"))), B2("AND", B2("<", F("a"), N("1")), B2("=", F("c"), N("2")))}
Sandwich ==
       { B2(o, F("x"), B2(o2, p, q)) : o \in {"/", "-", "*"}, o2 \in {"*", "/", "-", "+"}, p \in Groups, q \in Groups }
  \cup { B2(o, B2(o2, p, q), F("x")) : o \in {"/", "-", "*"}, o2 \in {"*", "/", "-", "+"}, p \in Groups, q \in Groups }
  \cup { B2("-", F("x"), B2("-", B2("*", p, F("c")), q)) : p \in Groups, q \in Groups }
  \cup { B2(o, B2("=", F("x"), N("0")), B2(o2, p, q)) : o \in BoolOps, o2 \in BoolOps, p \in BGroups, q \in BGroups }
  \cup { [k |-> "not", a |-> B2(o2, p, q)] : o2 \in BoolOps, p \in BGroups, q \in BGroups }
  \* NOT NOT over a group, as an operand of a connective (both sides), alone, and threefold
  \cup { B2(o, [k |-> "not", a |-> [k |-> "not", a |-> g]], B2("=", F("x"), N("0"))) : o \in BoolOps, g \in BGroups }
  \cup { B2(o, B2("=", F("x"), N("0")), [k |-> "not", a |-> [k |-> "not", a |-> g]]) : o \in BoolOps, g \in BGroups }
  \cup { [k |-> "not", a |-> [k |-> "not", a |-> g]] : g \in BGroups }
  \cup { B2("AND", [k |-> "not", a |-> [k |-> "not", a |-> [k |-> "not", a |-> g]]], B2("=", F("x"), N("0"))) : g \in BGroups }

Trees == Sandwich \cup
    IF Mode = "edge" THEN
        RichLeaves \cup L1 \cup OpsOver(L1, {F("c"), N("-1")}) \cup OpsOver({F("c"), N("-1")}, L1) \cup Unary(L1)
    ELSE
        RichLeaves \cup L1 \cup OpsOver(L1 \cup RichLeaves, L1 \cup RichLeaves) \cup Unary(L1)
             \cup Unary(OpsOver(L1small, {F("c")}))

VARIABLE tree
Init == tree \in Trees
Next == UNCHANGED tree
Spec == Init /\ [][Next]_tree

\* the intended design satisfies the property (oracle honesty)
ParseBack == ParseBackOK(tree, Render(tree))
\* and the parser recovers exactly what was built when everything is bracketed
Emit == PrintT("T " \o ToJson(tree))
=============================================================================
