---------------------------- MODULE MC_ExprGrow ----------------------------
(* Second generator for C06: a transition system that GROWS an expression   *)
(* along a spine - each step wraps the current tree in a new operator with  *)
(* a fresh leaf on the other side, or in a unary operator.  TLC explores    *)
(* every growth history up to MaxDepth; ParseBack is an invariant of every  *)
(* reachable tree of the intended design, and every tree is printed for the *)
(* executor.  (MC_Expr enumerates depth-2 products; this one reaches the    *)
(* deep left- and right-leaning trees where a rule applied to the wrong     *)
(* ancestor only shows at depth 3 or more.)                                 *)
EXTENDS PT_Expr, Json
CONSTANTS MaxDepth, OpsUsed, UnaryUsed

F(n) == [k |-> "fld", n |-> n]
N(n) == [k |-> "num", n |-> n]
Start == {F("a"), N("-1")}
Sibling == {F("c"), N("2")}

IsCrit(t) == \/ t.k \in {"fld", "not", "isnull", "in", "between", "call"}
             \/ t.k = "bin" /\ t.op \notin ArithOps

VARIABLES tree, depth
vars == <<tree, depth>>
Init == tree \in Start /\ depth = 0

WrapL(o, s) == /\ (o \in BoolOps => IsCrit(tree) /\ IsCrit(s))
               /\ tree' = [k |-> "bin", op |-> o, l |-> tree, r |-> s]
WrapR(o, s) == /\ (o \in BoolOps => IsCrit(tree) /\ IsCrit(s))
               /\ tree' = [k |-> "bin", op |-> o, l |-> s, r |-> tree]
WrapU(u) == tree' = IF u = "in" THEN [k |-> "in", a |-> tree, items |-> <<N("1"), N("2")>>]
                    ELSE IF u = "between" THEN [k |-> "between", a |-> tree, lo |-> N("1"), hi |-> N("5")]
                    ELSE IF u = "betweenhi" THEN [k |-> "between", a |-> F("c"), lo |-> N("1"), hi |-> tree]
                    ELSE [k |-> u, a |-> tree]

Next == /\ depth < MaxDepth
        /\ depth' = depth + 1
        /\ \/ \E o \in OpsUsed, s \in Sibling : WrapL(o, s) \/ WrapR(o, s)
           \/ \E u \in UnaryUsed : WrapU(u)

ParseBack == ParseBackOK(tree, Render(tree))
Emit == PrintT("T " \o ToJson(tree))
=============================================================================
