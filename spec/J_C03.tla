-------------------------------- MODULE J_C03 --------------------------------
(* Judge for C03: the engine's verdict records are checked against the      *)
(* specification: the reference that was executed IS RefFull of the logged  *)
(* calls (wrapped by the logged shape), and the verdict must be             *)
(*   prepared /\ (identical bytecode \/ same rows on every database)        *)
EXTENDS PT_RefSql, Json, IOUtils
Events == ndJsonDeserialize(IOEnv.TRACE_FILE)
VARIABLE i
Init == i = 1
Verdict(e) ==
    LET want == RefShape(e.shape, RefFull(Fold(Empty, e.hist)), 1) IN
    [tid |-> e.tid,
     bound |-> want = e.ref,
     \* the engine rejecting the plain transcription itself with the very diagnosis it gives the library's text
     \* (VALUES rows of different length, one table twice in FROM, a DO UPDATE predicate over the SELECT's table)
     \* means the calls have no meaning to preserve: not a verdict on the library
     fault |-> IF e.prepare # "" /\ e.prepare = e.refprepare THEN ""
               ELSE IF e.prepare # "" THEN "prepare-error"
               ELSE IF e.refprepare # "" THEN "reference-rejected"
               ELSE IF e.explain_equal \/ e.rows_equal THEN "" ELSE "rows-differ"]
Next == /\ i <= Len(Events)
        /\ LET v == Verdict(Events[i]) IN IF v.bound /\ v.fault = "" THEN TRUE ELSE PrintT("V " \o ToJson(v))
        /\ i' = i + 1
Spec == Init /\ [][Next]_i
=============================================================================
