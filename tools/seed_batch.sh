#!/bin/bash
# usage: tools/seed_batch.sh <dir with Cxx/{a,b}/> <round prefix, e.g. R6>   - runs tools/seed.sh for every change against its own property's check
cd "$(dirname "$0")/.."
for d in "$1"/C*/[ab]; do
  [ -f "$d/patch.diff" ] || continue
  c=$(basename "$(dirname "$d")"); x=$(basename "$d")
  echo "=== $2-$c-$x $(tools/seed.sh "$d" "$2-$c-$x" "$c" 2>&1 | grep -E 'suite-with|^check|detected|PATCH' | tr '\n' ' ' | cut -c1-230)"
done
