-------------------------------- MODULE J_C10 --------------------------------
(* Judge for C10: both renderings come from the real code - the inner query *)
(* stand-alone under the outer statement's dialect context, and the outer   *)
(* statement; pre / suf are what the same outer has around a benign inner.  *)
EXTENDS PT_Embed, Json, IOUtils
Events == ndJsonDeserialize(IOEnv.TRACE_FILE)
VARIABLE i
Init == i = 1
Verdict(e) ==
    LET ok == EmbedsVerbatim(e.outer, e.pre, e.inner, e.suf)
        frame == FrameOK(e.pre, e.suf, e.pos, e.wraps, e.alias)
        mid == IF Len(e.outer) >= Len(e.pre) + Len(e.suf) THEN SubSeq(e.outer, Len(e.pre) + 1, Len(e.outer) - Len(e.suf)) ELSE <<>>
    IN [tid |-> e.tid, ok |-> ok, frame |-> frame,
        at |-> IF ok THEN 0 ELSE IF SubSeq(Norm(e.outer), 1, Len(e.pre)) # Norm(e.pre) THEN -1 ELSE FirstDiff(Norm(mid), Norm(e.inner))]
Next == /\ i <= Len(Events)
        /\ LET v == Verdict(Events[i]) IN IF v.ok /\ v.frame THEN TRUE ELSE PrintT("V " \o ToJson(v))
        /\ i' = i + 1
Spec == Init /\ [][Next]_i
=============================================================================
